#!/bin/bash
# usage: tools/sweep.sh <variant> <family> [harness args...]  -> runs 16 shards, summarises
V=$1; shift
cd /verif
EXE=$(python3 - <<PY
import sys; sys.path.insert(0,'bin'); import vlib, plans
print(vlib.build_harness('$V','qsx',plans.HARNESS_SOURCES))
PY
)
EXE=$(echo "$EXE" | tail -1)
mkdir -p /tmp/me; export VERIF_SCRATCH_BASE=/tmp/me; D=$(mktemp -d /tmp/me/sweep.XXXXXX)
export ASAN_OPTIONS="detect_leaks=0:exitcode=86:allocator_may_return_null=1" UBSAN_OPTIONS="print_stacktrace=1:halt_on_error=1:exitcode=87"
S=$(date +%s)
for i in $(seq 0 15); do $EXE "$@" --shard $i/16 --out $D/o_$i.jsonl 2>$D/err_$i.txt & done
wait
E=$(date +%s)
echo "sweep wall $((E-S))s  out=$D"
cat $D/err_*.txt | head -5
python3 tools/summ.py $D/o_*.jsonl | grep -v "^STATS" | cut -c1-${SUMW:-1000}
python3 - <<PY
import json,glob
t=0;d=0
for f in glob.glob('$D/o_*.jsonl'):
    for l in open(f):
        if '"t":"stats"' in l:
            j=json.loads(l); d+=j['done']; t=j['total']
print('done',d,'of',t)
PY
