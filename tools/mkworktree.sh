#!/bin/bash
# usage: tools/mkworktree.sh <dir>  - scratch git worktree of /repo HEAD, configured so that `make check` works there
set -e
D=$1
git -C /repo worktree add --detach "$D" HEAD >/dev/null 2>&1
cd /repo
for f in configure Makefile.in aclocal.m4 compile config.guess config.sub depcomp install-sh ltmain.sh missing test-driver config.h.in; do [ -e $f ] && cp -p $f "$D/"; done
mkdir -p "$D/m4"; cp -p m4/* "$D/m4/" 2>/dev/null || true
cd "$D" && ./configure >/dev/null 2>&1 && echo "worktree ready: $D (run: make -j8 check)"
