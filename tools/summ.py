#!/usr/bin/env python3
import json,collections,sys,re
c=collections.Counter(); ex={}
for f in sys.argv[1:]:
    for l in open(f, errors='replace'):
        try: l=json.loads(l)
        except Exception: continue
        if l['t'] in('viol','crash','hang'):
            m=l['msg']
            cfg=re.search(r'cfg\{([^}]*)\}',m)
            key=''
            if l['t']=='crash':
                mm=re.search(r'(SUMMARY: .*|signal=\d+ exit=-?\d+)',m); key=mm.group(1)[:120] if mm else m[:60]
            k=(l['t'],l['prop'],l['sig'],key)
            c[k]+=1; ex.setdefault(k,l)
        elif l['t']=='stats':
            print('STATS done=%s viol=%s crashes=%s hangs=%s wall=%sms'%(l['done'],l['viol'],l['crashes'],l['hangs'],l['wall_ms']))
for k,v in c.most_common(): print(v,k); print('    item',ex[k]['item'],ex[k]['msg'][:int(sys.argv[0] and 1200)])
