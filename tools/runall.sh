#!/bin/bash
# run every quick (or $1=thorough) check sequentially, log timings
T=${1:-quick}
cd /verif; export VERIF_SCRATCH_BASE=/tmp/me; mkdir -p /tmp/me
for P in C01 C02 C03 C04 C05 C06 C07 C08 C09 C10 C11 C12 C13 C14 C15 C16 C17 C18 C19 C20; do
  S=$(date +%s); bin/vcheck $P --tier $T > /tmp/me/all.$P.out 2> /tmp/me/all.$P.err; RC=$?; E=$(date +%s)
  echo "$P exit=$RC $((E-S))s $(grep '^vcheck' /tmp/me/all.$P.out | cut -c1-160)"
  grep -E "^VIOLATION|^CHECK-BROKEN|^  sig" /tmp/me/all.$P.out | cut -c1-300
done
