#!/usr/bin/env python3
"""Fold the coordinator's own confirmation and the detection results into seeded/<id>/meta.json (key "coordinator")."""
import json, os, re, sys, glob
V = os.path.dirname(os.path.dirname(os.path.abspath(__file__)))
notes = json.load(open(os.path.join(V, "seeded", "NOTES.json")))
for d in sorted(glob.glob(os.path.join(V, "seeded", "*", ""))):
    n = os.path.basename(os.path.dirname(d))
    mp = os.path.join(d, "meta.json")
    if not os.path.exists(mp):
        continue
    m = json.load(open(mp))
    det, cur = [], None
    # detection.full.txt (when present) is the record of the property's full quick command; detection.txt then is a later
    # re-run of the reporting run only, made to refresh the replay files after the item numbering had changed
    dp = os.path.join(d, "detection.full.txt")
    if not os.path.exists(dp):
        dp = os.path.join(d, "detection.txt")
    if os.path.exists(dp):
        for l in open(dp):
            g = re.match(r"== vcheck (\S+) (\S+): exit (\d+) in (\d+)s", l)
            if g:
                cur = {"check": "bin/vcheck %s --tier %s" % (g.group(1), g.group(2)), "exit": int(g.group(3)), "wall_s": int(g.group(4)), "violations": []}
                det.append(cur)
            elif cur is not None and l.startswith("VIOLATION"):
                cur["violations"].append(l.strip())
            elif cur is not None and l.startswith("  sig=") and len(cur["violations"]) and len(cur.get("first_report", "")) == 0:
                cur["first_report"] = l.strip()[:300]
    c = {"confirmed": "tools/confirm_mut.sh %s in its own scratch worktree: make check 20/20 with the change; demo/run.sh exits 1 with the change and 0 without it" % n,
         "applied_for_detection": "git -C /repo apply seeded/%s/patch.diff; checks below; git -C /repo checkout -- . (tools/evalmut.sh)" % n,
         "detection": det,
         "detected": any(x["exit"] == 1 and x["violations"] for x in det)}
    c.update(notes.get(n, {}))
    m["coordinator"] = c
    json.dump(m, open(mp, "w"), indent=1)
    print(n, "detected" if c["detected"] else "NOT detected", [ (x["check"].split()[1], x["exit"]) for x in det])
