#!/bin/bash
# usage: tools/confirm_mut.sh <name> [worktree]   - independently confirm a seeded change in its scratch worktree:
#   (1) repository tests pass with the change, (2) demo FAILs with it, (3) demo PASSes without it.  Then store it under /verif/seeded/<name>/
N=$1; W=${2:-/tmp/mut/$N}
cd "$W" || exit 2
LOG=/tmp/mut/$N.confirm.log; : > $LOG
git diff -- qsopt_ex esolver > /tmp/mut/$N.cur.diff
if ! diff -q /tmp/mut/$N.cur.diff patch.diff >/dev/null; then echo "NOTE: worktree diff differs from patch.diff" | tee -a $LOG; fi
make -j6 >>$LOG 2>&1
T=$(make check 2>&1 | grep -E "^# (PASS|FAIL):" | tr '\n' ' '); echo "with change: make check: $T" | tee -a $LOG
bash demo/run.sh >>$LOG 2>&1; R1=$?; echo "with change: demo exit $R1 (expect 1)" | tee -a $LOG
git apply -R patch.diff && make -j6 >>$LOG 2>&1
bash demo/run.sh >>$LOG 2>&1; R2=$?; echo "without change: demo exit $R2 (expect 0)" | tee -a $LOG
git apply patch.diff && make -j6 >>$LOG 2>&1
case "$T" in *"PASS:  20"*"FAIL:  0"*) OK=1;; *) OK=0;; esac
if [ $OK = 1 ] && [ $R1 = 1 ] && [ $R2 = 0 ]; then
  mkdir -p /verif/seeded/$N && cp patch.diff meta.json /verif/seeded/$N/ && rm -rf /verif/seeded/$N/demo && cp -r demo /verif/seeded/$N/demo && find /verif/seeded/$N/demo -type f \( -name '*.o' -o -perm -111 ! -name '*.sh' \) -delete
  echo "CONFIRMED $N" | tee -a $LOG
else echo "NOT CONFIRMED $N" | tee -a $LOG; fi
