#!/usr/bin/env python3
"""Regenerate /verif/MANIFEST.json from bin/plans.py (single source of truth)."""
import json, os, subprocess, sys
V = os.path.dirname(os.path.dirname(os.path.abspath(__file__)))
sys.path.insert(0, os.path.join(V, "bin"))
import plans
props = [json.loads(l) for l in open(os.path.join(V, "properties.jsonl"))]
hook_commits = subprocess.run(["git", "-C", "/repo", "log", "--format=%H %s"], capture_output=True, text=True).stdout.splitlines()
hook_commits = [l.split()[0] for l in hook_commits if "verif hook" in l]
checks, na = [], []
for p in props:
    pid = p["id"]
    pl = plans.PLANS.get(pid)
    if not pl or not pl.get("quick"):
        na.append({"property_id": pid, "reason": plans.NOT_YET.get(pid, "check not built yet in this session; see DESIGN.md for the planned exploration")})
        continue
    c = {
        "property_id": pid,
        "quick_cmd": "bin/vcheck %s --tier quick" % pid,
        "thorough_cmd": "bin/vcheck %s --tier thorough" % pid,
        "evidence_file": "evidence/%s.json" % pid,
        "replay_cmd_template": "bin/vcheck --replay {path}",
        "engine": "qsx-explorer",
        "level_claimed": {"category": "model_checking", "text": pl.get("level_text", ""), "design_ref": pl.get("design_ref", "DESIGN.md section 3, " + pid)},
        "level_note": pl.get("level_note", ""),
        "technique": pl.get("technique", "bounded-exhaustive enumeration of the stated item space executed on the real code in lock-step with a reference model / certificate checker"),
    }
    checks.append(c)
m = {
    "version": 1,
    "setup_cmd": "bin/setup",
    "hooks": {
        "guard": "QSOPT_EX_VERIF",
        "enable": "every harness build compiles /repo's working tree out of tree with -DQSOPT_EX_VERIF=1 (bin/vlib.py build_lib); the autotools build never defines it",
        "baseline_off_cmd": "cd /repo && make check",
        "source_commits": hook_commits,
        "add_only": True,
    },
    "engines": [{"name": "qsx-explorer", "path": "harness/ + bin/vcheck",
                 "serves_properties": [c["property_id"] for c in checks],
                 "kind_free_text": "stateless bounded-exhaustive explorer: integer-indexed item spaces (LP instances x configuration lattice, API-call histories, token/mutation sequences, column-replacement sequences) executed on the real library in forked workers, checked step by step against a dense rational reference model, Fourier-Motzkin reference solver with self-verified witnesses and exact certificate checkers"}],
    "checks": checks,
    "not_applicable": na,
    "notes": "All checks rebuild /repo's working tree (content-hash keyed build cache under .cache/). known_findings.json lists genuine defects recorded (status known) or repaired (status fixed).",
}
json.dump(m, open(os.path.join(V, "MANIFEST.json"), "w"), indent=1)
print("checks:", [c["property_id"] for c in checks], "not_applicable:", [n["property_id"] for n in na])
