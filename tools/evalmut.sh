#!/bin/bash
# usage: [TIER=thorough] [INPLACE=1] tools/evalmut.sh <name> <prop> [more props...]
#   run the quick (or $TIER) checks against the seeded change /verif/seeded/<name>/patch.diff and record what they report
#   in seeded/<name>/detection.txt (+ the replay files in seeded/<name>/replays/).
#   INPLACE=1: git -C /repo apply the patch, run, git -C /repo checkout -- .   (nothing else may be running on /repo meanwhile)
#   default:   the same sources in a throw-away worktree of /repo HEAD under /tmp/me with the patch applied, handed to the
#              checks through VERIF_REPO - /repo is not touched, so long runs on /repo can go on in parallel.
N=$1; shift
cd /verif
mkdir -p /tmp/me
export VERIF_SCRATCH_BASE=/tmp/me VERIF_OUT_DIR=/tmp/me/evalmut.$N.outdir
if [ -n "$INPLACE" ]; then
  if ! git -C /repo diff --quiet; then echo "/repo has uncommitted changes"; exit 2; fi
  git -C /repo apply /verif/seeded/$N/patch.diff || { echo "patch does not apply"; exit 2; }
else
  WT=/tmp/me/evalwt.$N
  git -C /repo worktree remove --force $WT >/dev/null 2>&1; rm -rf $WT
  git -C /repo worktree add --detach $WT HEAD >/dev/null 2>&1 || { echo "worktree add failed"; exit 2; }
  cp -p /repo/config.h $WT/config.h
  git -C $WT apply /verif/seeded/$N/patch.diff || { echo "patch does not apply"; git -C /repo worktree remove --force $WT; exit 2; }
  export VERIF_REPO=$WT
fi
OUT=/verif/seeded/$N/detection.txt; : > $OUT
for P in "$@"; do
  S=$(date +%s)
  bin/vcheck $P ${TIER:+--tier $TIER} > /tmp/me/evalmut.$N.$P.out 2>/tmp/me/evalmut.$N.$P.err; RC=$?
  E=$(date +%s)
  echo "== vcheck $P ${TIER:-quick}: exit $RC in $((E-S))s" | tee -a $OUT
  grep -E "^VIOLATION|^  sig=|^CHECK-BROKEN|^KNOWN" /tmp/me/evalmut.$N.$P.out | cut -c1-400 | head -12 | tee -a $OUT
done
# keep the replay files named in detection.txt next to it
mkdir -p /verif/seeded/$N/replays
for f in $(grep -o "replay=[^ ]*" $OUT | cut -d= -f2); do [ -f "$f" ] && cp "$f" /verif/seeded/$N/replays/; done
sed -i "s#replay=/tmp/me/evalmut.$N.outdir/replays/[A-Z0-9]*/#replay=seeded/$N/replays/#" $OUT
if [ -n "$INPLACE" ]; then
  git -C /repo checkout -- .
  git -C /repo diff --quiet && echo "(repo restored)"
else
  git -C /repo worktree remove --force $WT; rm -rf $WT
fi
rm -rf /tmp/me/evalmut.$N.outdir
