#!/bin/bash
# usage: tools/evalmut.sh <name> <prop> [more props...]   - apply /verif/seeded/<name>/patch.diff to /repo, run the quick checks, undo
N=$1; shift
cd /verif
if ! git -C /repo diff --quiet; then echo "/repo has uncommitted changes"; exit 2; fi
git -C /repo apply /verif/seeded/$N/patch.diff || { echo "patch does not apply"; exit 2; }
export VERIF_SCRATCH_BASE=/tmp/me VERIF_OUT_DIR=/tmp/me/evalmut.$N.outdir
mkdir -p /tmp/me
OUT=/verif/seeded/$N/detection.txt; : > $OUT
for P in "$@"; do
  S=$(date +%s)
  bin/vcheck $P ${TIER:+--tier $TIER} > /tmp/me/evalmut.$N.$P.out 2>/tmp/me/evalmut.$N.$P.err; RC=$?
  E=$(date +%s)
  echo "== vcheck $P ${TIER:-quick}: exit $RC in $((E-S))s" | tee -a $OUT
  grep -E "^VIOLATION|^  sig=|^CHECK-BROKEN|^KNOWN" /tmp/me/evalmut.$N.$P.out | cut -c1-400 | head -12 | tee -a $OUT
done
# keep the replay files named in detection.txt next to it
mkdir -p /verif/seeded/$N/replays
for f in $(grep -o "replay=[^ ]*" $OUT | cut -d= -f2); do [ -f "$f" ] && cp "$f" /verif/seeded/$N/replays/; done
sed -i "s#replay=/tmp/me/evalmut.$N.outdir/replays/[A-Z0-9]*/#replay=seeded/$N/replays/#" $OUT
git -C /repo checkout -- .
rm -rf /tmp/me/evalmut.$N.outdir
git -C /repo diff --quiet && echo "(repo restored)"
