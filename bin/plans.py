"""Exploration plans per property: which harness families / option sets are
enumerated in the quick and thorough tiers, with which build variant."""

HARNESS_SOURCES = ["engine.c", "ref.c", "qsx.c", "lpfam.c", "h_inst.c", "h_hist.c", "h_basis.c", "h_copy.c", "h_meta.c", "h_io.c", "h_esolver.c", "h_factor.c", "h_fuzzio.c", "families.c"]  # keep in sync with harness/families.c


def lp(id, variant, fam, cfg="default", weight=1, **kw):
    r = {"id": id, "variant": variant, "family": "lp", "opts": {"fam": fam, "cfg": cfg}, "weight": weight,
         "crash_props": ["C17", "C03"], "timeout": 300}
    r.update(kw)
    return r


def fam(id, variant, family, opts, weight=1, **kw):
    r = {"id": id, "variant": variant, "family": family, "opts": opts, "weight": weight, "crash_props": ["C17"], "timeout": 120}
    r.update(kw)
    return r


LP_ASSUME = [
    "reference truth comes from the harness's Fourier-Motzkin solver; every verdict it gives is re-verified by substitution (point, multipliers, ray) before use",
    "infinite bounds are the library's sentinel +-mpq_ILL_MAXDOUBLE",
    "prodl1/sanl1 variants compile the library with -DQS_EXACT_MAX_ITER=1 (existing switch): the mpf ladder has one level instead of twelve; runs on 'prod'/'san' use the default ladder",
]

PLANS = {}

PLANS["C01"] = {
    "title": "OPTIMAL only with an exact optimality certificate",
    "rule": "instances are enumerated by mixed-radix index over the alphabets of the named family (lpfam.c); for each instance every configuration of the named set is executed; non-trivial = has a non-zero coefficient or needed simplex iterations / an exact fallback",
    "quick": [
        lp("S0k-default", "prodl1", "S0k", "default", weight=3),
        lp("S0q1-k1", "prodl1", "S0q1", "k1", weight=4),
        lp("Sbq-k1", "prodl1", "Sbq", "k1", weight=4),
        lp("T-k1", "prod", "T", "k1", weight=3, opts={"fam": "T", "cfg": "k1", "tscale": 30}),
        lp("Sillq-k1x", "prodl1", "Sillq", "k1x", weight=1),
        lp("S0mk-san", "sanl1", "S0mk", "default", weight=2),
    ],
    "thorough": [
        lp("S0-default", "prodl1", "S0", "default", weight=3),
        lp("S0q1-k2", "prodl1", "S0q1", "k2", weight=5),
        lp("Sbq-k1", "prodl1", "Sbq", "k1", weight=2),
        lp("T-k2", "prod", "T", "k2", weight=7, opts={"fam": "T", "cfg": "k2", "tscale": 30}),
        lp("SXq-default-fullladder", "prod", "SXq", "default", weight=4),
        lp("S0mk-san-k1x", "sanl1", "S0mk", "k1x", weight=2),
    ],
    "bounds": {"quick": "S0k (n<=2,m<=2) x default config; S0q1, Sbq (bound-shape-rich), T x all configurations within one deviation of the default (K<=1); C04 adds the direct-simplex sub-lattice kdir and warm starts from every basis",
               "thorough": "S0 (1.9M LPs) x default; S0q1 and T x all configurations within two deviations (K<=2, 200 configurations); SXq (extreme magnitudes) x default with the full precision ladder; sized for a 20 minute cap on 16 cores - a run the cap interrupts is reported as such"},
    "assumptions": LP_ASSUME,
}
for pid, title in (("C02", "INFEASIBLE only with an exact Farkas certificate"),
                   ("C03", "status and value equal the mathematical truth"),
                   ("C04", "the answer is a function of the LP only")):
    PLANS[pid] = dict(PLANS["C01"])
    PLANS[pid]["title"] = title
PLANS["C03"]["quick"] = PLANS["C01"]["quick"] + [lp("S0mk-prod-default-ladder", "prod", "S0mk", "default", weight=2)]
PLANS["C03"]["thorough"] = PLANS["C01"]["thorough"] + [lp("S0c-prod-default-ladder", "prod", "S0c", "default", weight=6)]
PLANS["C04"]["quick"] = PLANS["C01"]["quick"] + [lp("S0q1-kdir", "prodl1", "S0q1", "kdir", weight=2, crash_props=["C17", "C04"]), lp("Sbq-kdir", "prodl1", "Sbq", "kdir", weight=2, crash_props=["C17", "C04"]), lp("CP-kpr", "prod", "CP", "kpr", weight=2, crash_props=["C17", "C04"]), lp("T-kdir", "prod", "T", "kdir", weight=2, crash_props=["C17", "C04"], opts={"fam": "T", "cfg": "kdir", "tscale": 30}),
                                                fam("warm-allbases-S0q1", "prodl1", "basis", {"fam": "S0q1", "files": 0, "verify": 0, "warm": 1}, weight=2, crash_props=["C17", "C04"]),
                                                fam("warm-allbases-S1q", "prodl1", "basis", {"fam": "S1q", "files": 0, "verify": 0, "warm": 1}, weight=2, crash_props=["C17", "C04"])]
PLANS["C04"]["thorough"] = PLANS["C01"]["thorough"] + [lp("Sbq-kdir", "prodl1", "Sbq", "kdir", weight=3, crash_props=["C17", "C04"]), lp("CP-kpr", "prod", "CP", "kpr", weight=2, crash_props=["C17", "C04"]), lp("T-kdir", "prod", "T", "kdir", weight=2, crash_props=["C17", "C04"], opts={"fam": "T", "cfg": "kdir", "tscale": 30}),
                                                       fam("warm-allbases-S0q1", "prodl1", "basis", {"fam": "S0q1", "files": 0, "verify": 0, "warm": 1}, weight=2, crash_props=["C17", "C04"]), fam("warm-allbases-Sbq", "prodl1", "basis", {"fam": "Sbq", "files": 0, "verify": 0, "warm": 1}, weight=3, crash_props=["C17", "C04"])]
PLANS["C04"]["rule"] = PLANS["C01"]["rule"] + "; family 'basis' with warm=1: QSexact_solver (primal and dual start) warm-started from EVERY valid basis of every LP (singular bases included) must return the reference truth; configuration set kdir = full product {mpq_QSopt_primal, mpq_QSopt_dual} x scaling {on, off} x warm start {none, 3 bases} (the direct rational simplex sub-lattice, 3 simultaneous deviations); configuration set kpr = full product {mpq_QSopt_primal, mpq_QSopt_dual} x 4 primal pricing rules x 4 dual pricing rules x scaling {on, off} on family CP, a deterministic catalogue of 240 covering/packing LPs with 3..5 rows and 4..8 columns (answers compared with the default configuration's and, where Fourier-Motzkin finishes, with the truth)"
PLANS["C04"]["evidence"] = {"states": ["instances"], "transitions": ["executions"], "nontrivial": ["instances_nontrivial"]}


def hist(id, variant, depth, reduced=0, weight=1, family="hist", **kw):
    r = {"id": id, "variant": variant, "family": family, "opts": {"depth": depth, "reduced": reduced}, "weight": weight,
         "crash_props": ["C17", "C05", "C06"] if family == "hist" else ["C17", "C07"], "timeout": 60}
    r.update(kw)
    return r


HIST_ASSUME = [
    "the reference model (harness/ref.c RefLP) applies the documented meaning of each call; change_sense(i,'R') resets the range to 0 as documented in lib.c",
    "solving or writing a problem without any column is treated as out of scope (such histories are counted as inapplicable)",
    "a history is explored as a full tree without state merging: each item replays start + ops on a fresh object inside one QSexactStart..QSexactClear bracket",
]
SW3 = hist("hist-sw3-san", "san", 3, weight=2, opts={"depth": 3, "reduced": 0, "sandwich": 1})   # solve ; any of the 67 operations ; solve
HIST_RULE = ("item = (start problem in {empty,1x1,testsuite3x2,ranged2x2,degenerate3x3,infeasible2x2,singleton3x3,mip3x2-read (integer markers, read from LP text)}, op_1..op_d; option sandwich: op_1 and op_d range over the 4 solve entry points only) over the operation alphabet of "
             "harness/h_hist.c (67 concrete transitions; 'reduced' keeps the 24 that touch basis/cache/factorization); every item is executed on the real library "
             "in lock-step with the model; non-trivial = every op of the history was applicable in the state it was issued in")

PLANS["C05"] = {
    "title": "re-solve after edits equals solve from scratch; no stale solution",
    "rule": HIST_RULE,
    "quick": [hist("hist-d1-san", "san", 1), hist("hist-d2-san", "san", 2, weight=3), SW3, hist("hist-d3r-prod", "prod", 3, reduced=1, weight=3)],
    "thorough": [hist("hist-d2-san", "san", 2), SW3, hist("hist-d3r-san", "san", 3, reduced=1, weight=4), hist("hist-d3-prod", "prod", 3, weight=10),
                 hist("hist-sw4-prod", "prod", 4, weight=6, opts={"depth": 4, "reduced": 0, "sandwich": 1}), hist("hist-d4r-prod", "prod", 4, reduced=1, weight=10)],
    "bounds": {"quick": "all histories of depth <= 2 over the full alphabet; solve ; any operation ; solve over the full alphabet (sanitizer build); depth 3 over the reduced alphabet; 8 start problems",
               "thorough": "depth 3 over the full alphabet, solve ; op ; op ; solve over the full alphabet, depth 4 over the reduced alphabet"},
    "evidence": {"states": ["histories"], "transitions": ["api_transitions"], "nontrivial": ["histories"]},
    "assumptions": HIST_ASSUME,
}
PLANS["C06"] = dict(PLANS["C05"])
PLANS["C06"]["title"] = "query functions reflect exactly the edits made"
PLANS["C06"]["quick"] = PLANS["C05"]["quick"] + [fam("grow-san", "san", "grow", {}, weight=1, crash_props=["C17", "C06"], timeout=300)]
PLANS["C06"]["thorough"] = PLANS["C05"]["thorough"] + [fam("grow-san", "san", "grow", {}, weight=1, crash_props=["C17", "C06"], timeout=300), fam("grow-prod", "prod", "grow", {}, weight=1, crash_props=["C17", "C06"], timeout=300)]
PLANS["C06"]["rule"] = HIST_RULE + "; family 'grow': 192 long enumerated histories (k in {99,100,101,199,200,201} rows and columns added one call at a time in 3 orders, or a 60x40 matrix filled entry by entry to 999/1000/1001/2001 non-zeros, then deletes at positions {0,1,50,98,99,100,last-1,last}, re-adds) with a full query dump at every checkpoint"
PLANS["C06"]["bounds"] = {"quick": PLANS["C05"]["bounds"]["quick"] + "; 192 growth histories (about 550 calls each)", "thorough": PLANS["C05"]["bounds"]["thorough"] + "; growth histories on both builds"}
PLANS["C07"] = {
    "title": "invalid arguments are rejected and leave the problem untouched",
    "rule": ("item = (start problem, valid prefix of <= depth ops, one invalid call out of 236: every index-taking mpq_QS* function x boundary values "
             "{-1,count,count+1,internal column count-1,internal column count,INT_MAX}, list variants with the bad entry first/last, unknown/duplicate/NULL names, "
             "illegal sense/bound/objsense selectors, unknown parameters and values, malformed bases, missing files); oracle: non-zero return (index -1 accepted for the two "
             "pure look-ups), no sanitizer report, full observable dump (model conformance, basis, status, solution arrays, parameters) identical before and after, "
             "problem still solves to the model's answer; non-trivial = the variant denotes an invalid call in that state"),
    "quick": [hist("inv-d0-san", "san", 0, family="inv"), hist("inv-d1-prod", "prod", 1, family="inv", weight=4), hist("inv-d1r-san", "san", 1, reduced=1, family="inv", weight=4)],
    "thorough": [hist("inv-d1-san", "san", 1, family="inv", weight=4), hist("inv-d2r-prod", "prod", 2, reduced=1, family="inv", weight=8)],
    "bounds": {"quick": "lifecycle states = 7 starts x every valid prefix of length <= 1 (67 prefixes) x 236 invalid calls",
               "thorough": "prefixes of length <= 2 over the reduced alphabet"},
    "evidence": {"states": ["invalid_calls"], "transitions": ["api_transitions"], "nontrivial": ["invalid_calls"]},
    "assumptions": HIST_ASSUME,
}


PLANS["C12"] = {
    "title": "basis verdicts and returned bases are exact",
    "rule": ("family 'basis': for every LP of the named family EVERY basis is enumerated (every choice of m basic variables among the n+m structural and logical "
             "ones x every assignment of the others to an existing finite bound, 'free' for free columns; the status 'upper' is used for a row only when it is ranged, "
             "which is the only case the library accepts) and QSexact_basis_optimalstatus / _dualstatus / QSexact_verify are compared with an independent exact Gaussian "
             "elimination (O-BASIS); family 'lp': every basis returned with OPTIMAL under every configuration is checked (one basic per row, exact basic solution = reported "
             "solution, verdict function and warm start confirm). non-trivial LP = has at least one non-singular basis"),
    "quick": [hist("hist-d2-verd", "prod", 2, weight=2, crash_props=["C17", "C12"], opts={"depth": 2, "reduced": 0, "verd": 1}), hist("hist-sw3-verd", "prod", 3, weight=2, crash_props=["C17", "C12"], opts={"depth": 3, "reduced": 0, "sandwich": 1, "verd": 1}), fam("basis-S0q1", "prod", "basis", {"fam": "S0q1", "files": 0}, weight=3, crash_props=["C17", "C12"]),
              fam("basis-S1q", "prod", "basis", {"fam": "S1q", "files": 0}, weight=2, crash_props=["C17", "C12"]),
              fam("basis-Sbq", "prod", "basis", {"fam": "Sbq", "files": 0}, weight=2, crash_props=["C17", "C12"]),
              lp("S0q1-k1", "prodl1", "S0q1", "k1", weight=3)],
    "thorough": [fam("basis-S0c", "prod", "basis", {"fam": "S0c", "files": 0}, weight=6, crash_props=["C17", "C12"]),
                 fam("basis-S1r", "prod", "basis", {"fam": "S1r", "files": 0, "verify": 0}, weight=6, crash_props=["C17", "C12"]),
                 fam("basis-S1q-san", "san", "basis", {"fam": "S1q", "files": 0}, weight=3, crash_props=["C17", "C12"]),
                 lp("S0c-k1", "prodl1", "S0c", "k1", weight=6), lp("T-k1", "prod", "T", "k1", weight=3)],
    "bounds": {"quick": "all bases of all LPs of S0q1 (n<=2,m<=1) and S1q (ranged rows, fixed and boxed columns); returned bases of S0q1 x K<=1",
               "thorough": "all bases of S0c (n,m<=2) and S1r; returned bases of S0c and T x K<=1"},
    "evidence": {"states": ["bases", "c12_returned_bases"], "transitions": ["executions"], "nontrivial": ["bases_nonsingular", "c12_returned_nonsingular"]},
    "assumptions": ["O-BASIS treats a non-basic variable with lower = upper as dual feasible regardless of the sign of its reduced cost (as the library does for fixed variables)",
                    "QSexact_verify with useprestep=1 may answer 'yes' through the approximate-solution shortcut even when the supplied basis itself is not dual feasible; only 'dual feasible => yes' is demanded there, the strict iff is demanded with useprestep=0",
                    "singular bases are out of scope as the property says"] + LP_ASSUME,
}
PLANS["C14"] = {
    "title": "a basis file reads back as the same basis; writing does not consume the basis",
    "rule": ("family 'basis' with files=1: for every LP and every valid basis, mpq_QSwrite_basis(p,B,f) then mpq_QSread_basis / mpq_QSread_and_load_basis must give the same basic set "
             "and at-upper set (non-basic free <-> at-lower tolerated) and the same exact basic solution; family 'hist': mpq_QSwrite_basis(p,NULL,f) appears as an operation inside "
             "every history, followed by every other operation, and the basis must still be there"),
    "quick": [hist("hist-sb3", "prod", 3, weight=1, crash_props=["C17", "C14"], opts={"depth": 3, "reduced": 0, "sandwich": 2}), fam("basisfile-S1q", "prod", "basis", {"fam": "S1q", "files": 1, "verify": 0}, weight=2, crash_props=["C17", "C14"]),
              fam("basisfile-S0q1", "prod", "basis", {"fam": "S0q1", "files": 1, "verify": 0}, weight=2, crash_props=["C17", "C14"]),
              fam("basisfile-Sbq", "prod", "basis", {"fam": "Sbq", "files": 1, "verify": 0}, weight=2, crash_props=["C17", "C14"]),
              hist("hist-d2-san", "san", 2, weight=3), hist("hist-d3r-prod", "prod", 3, reduced=1, weight=3)],
    "thorough": [hist("hist-sb3", "prod", 3, weight=1, crash_props=["C17", "C14"], opts={"depth": 3, "reduced": 0, "sandwich": 2}), hist("hist-sb4", "prod", 4, weight=4, crash_props=["C17", "C14"], opts={"depth": 4, "reduced": 0, "sandwich": 2}), fam("basisfile-S0c", "prod", "basis", {"fam": "S0c", "files": 1, "verify": 0}, weight=6, crash_props=["C17", "C14"]),
                 fam("basisfile-S1r", "prod", "basis", {"fam": "S1r", "files": 1, "verify": 0}, weight=6, crash_props=["C17", "C14"]),
                 hist("hist-d3-prod", "prod", 3, weight=10)],
    "bounds": {"quick": "all bases of S0q1 and S1q; histories of depth 2 (full alphabet) and 3 (reduced alphabet) containing write_basis", "thorough": "all bases of S0c and S1r; depth-3 histories over the full alphabet"},
    "evidence": {"states": ["bases", "histories"], "transitions": ["executions", "api_transitions"], "nontrivial": ["bases_nonsingular", "histories"]},
    "assumptions": HIST_ASSUME,
}
PLANS["C16"] = {
    "title": "copies are faithful and independent",
    "rule": ("family 'copy': start problem x one optional prefix operation (full alphabet, incl. every set_param and solve) ; mpq_QScopy_prob ; every interleaving of <= steps operations "
             "(reduced alphabet + free) on original and copy; after the copy both conform to the same model and report the same parameters, afterwards a call on one object must leave the full "
             "observable dump of the other unchanged and both still solve to their own model's answer; family 'lowp': QScopy_prob_mpq_dbl and QScopy_prob_mpq_mpf at 6 precisions on every LP of a "
             "number-rich family (0, 1, -1, 1/3, 2^53+1, 3*2^-1074, 10^30, infinite bounds) checked entry by entry (1 ulp / 2^(1-prec) relative; zero to zero; infinity to the target's infinity; "
             "identical sparsity structure, senses and parameters); family 'cpar': start problem x optional edit x 14 parameter settings (pricing, scaling, devex pricing with scaling off, iteration limit 1/2, objective limits on both sides "
             "of the optimum) set before the copy x 4 entry points x 2 orders (copy before any solve; original solved first, copy solved and freed, original re-solved from its own state): original and copy must return the same value, status and optimum and the original must survive its copy (shows that what the parameters do - derived fields - was copied, not only what the getters return)"),
    "quick": [fam("cpar-prod", "prod", "cpar", {}, weight=2, crash_props=["C17", "C16"]),
              fam("lowp-SN1-prod", "prod", "lowp", {"fam": "SN1"}, weight=2, crash_props=["C17", "C16"]),
              fam("copy-s1-san", "san", "copy", {"steps": 1}, weight=3, crash_props=["C17", "C16"])],
    "deadline": {"quick": 1200, "thorough": 1500},
    "thorough": [fam("copy-s2-prod", "prod", "copy", {"steps": 2}, weight=10, crash_props=["C17", "C16"]),
                 fam("copy-s1-san", "san", "copy", {"steps": 1}, weight=3, crash_props=["C17", "C16"]),
                 fam("lowp-SN1-san", "san", "lowp", {"fam": "SN1"}, weight=2, crash_props=["C17", "C16"]),
                 fam("cpar-prod", "prod", "cpar", {}, weight=2, crash_props=["C17", "C16"]), fam("cpar-san", "san", "cpar", {}, weight=3, crash_props=["C17", "C16"])],
    "bounds": {"quick": "1 step after the copy (26800 items); 72576 number-rich LP indices x 7 targets; 67536 (start, edit, parameter, entry, order) items", "thorough": "2 interleaved steps after the copy (1.2M histories); cpar also on the sanitizer build"},
    "evidence": {"states": ["histories", "instances"], "transitions": ["api_transitions", "executions"], "nontrivial": ["histories", "instances_nontrivial"]},
    "assumptions": HIST_ASSUME,
}

PLANS["C15"] = {
    "title": "equivalent formulations of an LP receive equivalent answers",
    "rule": ("state = a formulation reachable from a base LP by composing transformations from a fixed alphabet of 24 (row scaling by +-10^8, row/column permutations, row scaling by 2, 1/3, -1 with sense flip, "
             "column scaling, negation of one / of all columns with mirrored bounds, column shifts, objective negation with min/max flip, row duplication, redundant row, equality split); breadth-first to the stated depth; every formulation is solved "
             "with QSexact_solver (dual start; the -primal runs use the primal start for base and transformed formulation alike) and status and back-transformed optimum are compared with the base formulation's (and with the reference truth for the small family). Base LPs: the enumerated small "
             "family, the targeted numeric family T (near-parallel, tiny coefficients, degenerate vertices ...) and a deterministic catalogue of 24 structured LPs (transportation, staircase with ranged rows, dense block + singleton rows, set-cover relaxation, potentials with free columns, "
             "degenerate assignment) x {60,150,300,450} rows (up to 2497 columns). non-trivial = base LP with rows and a finite optimum"),
    "quick": [fam("meta-S0q1-d1", "prodl1", "meta", {"fam": "S0q1", "depth": 1}, weight=2, crash_props=["C17", "C15"], timeout=900),
              fam("meta-CAT-d1", "prod", "meta", {"fam": "CAT", "depth": 1}, weight=3, crash_props=["C17", "C15"], timeout=900),
              fam("meta-T-d1", "prod", "meta", {"fam": "T", "depth": 1, "tscale": 30}, weight=3, crash_props=["C17", "C15"], timeout=900),
              fam("meta-S0q1-d1-primal", "prodl1", "meta", {"fam": "S0q1", "depth": 1, "algo": "primal"}, weight=2, crash_props=["C17", "C15"], timeout=900),
              fam("meta-CAT-d1-primal", "prod", "meta", {"fam": "CAT", "depth": 1, "algo": "primal"}, weight=3, crash_props=["C17", "C15"], timeout=900)],
    "thorough": [fam("meta-S0q-d2", "prodl1", "meta", {"fam": "S0q", "depth": 2}, weight=10, crash_props=["C17", "C15"], timeout=900),
                 fam("meta-CAT-d2", "prod", "meta", {"fam": "CAT", "depth": 2}, weight=6, crash_props=["C17", "C15"], timeout=900),
                 fam("meta-S0q1-d2-primal", "prodl1", "meta", {"fam": "S0q1", "depth": 2, "algo": "primal"}, weight=6, crash_props=["C17", "C15"], timeout=900),
                 fam("meta-CAT-d2-primal", "prod", "meta", {"fam": "CAT", "depth": 2, "algo": "primal"}, weight=6, crash_props=["C17", "C15"], timeout=900)],
    "bounds": {"quick": "depth 1 from every LP of S0q1 and from the 24 catalogue LPs", "thorough": "depth 2 (421 formulations per base LP) from S0q and the catalogue"},
    "evidence": {"states": ["formulations_compared", "instances"], "transitions": ["executions"], "nontrivial": ["instances_nontrivial"]},
    "assumptions": ["for the catalogue the claim is the relation over the transformation closure of these 24 problems only; their absolute optimum is not independently known",
                    "the catalogue is generated by closed formulas (no random numbers)"] + LP_ASSUME,
}

IO_ASSUME = [
    "the reference model of a problem is harness/ref.c RefLP; problems read back are compared by name where the name survives the writer's documented name repair and structurally (all bijections of the renamed columns, greedy on rows) otherwise",
    "both writers drop empty rows (the LP format cannot express them, the MPS writer says so in a warning): dropped empty rows are not counted as a difference",
    "integer marks are set by writing the marker array the readers fill (there is no API call for it)",
]
WR_RULE = ("problem = plain 2x2 base problem + a subset of <= k deviations out of 123 (row kind incl. ranges 0, 1, 5/2; 8 bound shapes incl. negative upper, fixed, free; coefficients/rhs/objective from "
           "{-1, 1/3, 10^40+1, 1/(10^40+1), -7/2, 0}; max; integer marks; 14 names incl. keywords, digits first, illegal characters, generated-name clashes, 255 characters; extra column/row, empty row; "
           "rows of 5/40/300 terms; .gz/.bz2/FILE* targets); written by the library, read by the library, compared with the model, then both are solved; non-trivial = at least one deviation")
PLANS["C08"] = {
    "title": "writing a problem in LP format and reading it back yields the same problem",
    "rule": WR_RULE,
    "quick": [fam("wr-LP-k2", "prod", "wr", {"fmt": "LP", "k": 2}, weight=4, crash_props=["C17", "C08"]),
              fam("wr-LP-k1-san", "san", "wr", {"fmt": "LP", "k": 1}, weight=1, crash_props=["C17", "C08"]),
              fam("rd-LP-k1", "prod", "rd", {"fmt": "LP", "k": 1}, weight=1, crash_props=["C17", "C08"]),
              fam("rd-MPS-k1", "prod", "rd", {"fmt": "MPS", "k": 1}, weight=1, crash_props=["C17", "C08"])],
    "thorough": [fam("wr-LP-k3", "prod", "wr", {"fmt": "LP", "k": 3}, weight=10, crash_props=["C17", "C08"]),
                 fam("wr-LP-k2-san", "san", "wr", {"fmt": "LP", "k": 2}, weight=4, crash_props=["C17", "C08"]),
                 fam("rd-LP-k2", "prod", "rd", {"fmt": "LP", "k": 2}, weight=2, crash_props=["C17", "C08"]),
                 fam("rd-MPS-k2", "prod", "rd", {"fmt": "MPS", "k": 2}, weight=2, crash_props=["C17", "C08"])],
    "bounds": {"quick": "all subsets of <= 2 deviations (7504 problems); MPS/LP-specific shapes from the independent renderers (<= 1 lexical deviation) fed through the LP writer",
               "thorough": "all subsets of <= 3 deviations (302k problems)"},
    "evidence": {"states": ["instances"], "transitions": ["executions"], "nontrivial": ["instances_nontrivial"]},
    "assumptions": IO_ASSUME,
}
PLANS["C09"] = {
    "title": "MPS output reads back as the same problem, and LP and MPS renderings agree",
    "rule": WR_RULE + "; chain=1 additionally runs every sequence of <= 3 conversions over {LP,MPS}; MPS-specific shapes (negative RHS, RANGES on L/G/E rows of either sign, MI/PL/FR/FX bound types, markers, OBJSENSE/OBJNAME) enter through the 'rd' family: text from an independent renderer is read and then written and re-read in both formats",
    "quick": [fam("wr-MPS-k2", "prod", "wr", {"fmt": "MPS", "k": 2}, weight=4, crash_props=["C17", "C09"]),
              fam("wr-LP-k1-chain", "prod", "wr", {"fmt": "LP", "k": 1, "chain": 1}, weight=2, crash_props=["C17", "C09"]),
              fam("wr-MPS-k1-chain", "prod", "wr", {"fmt": "MPS", "k": 1, "chain": 1}, weight=2, crash_props=["C17", "C09"]),
              fam("rd-MPS-k1", "prod", "rd", {"fmt": "MPS", "k": 1}, weight=1, crash_props=["C17", "C09"]),
              fam("rd-LP-k1", "prod", "rd", {"fmt": "LP", "k": 1}, weight=1, crash_props=["C17", "C09"])],
    "thorough": [fam("wr-MPS-k3", "prod", "wr", {"fmt": "MPS", "k": 3}, weight=10, crash_props=["C17", "C09"]),
                 fam("wr-LP-k2-chain", "prod", "wr", {"fmt": "LP", "k": 2, "chain": 1}, weight=6, crash_props=["C17", "C09"]),
                 fam("wr-MPS-k2-chain", "prod", "wr", {"fmt": "MPS", "k": 2, "chain": 1}, weight=6, crash_props=["C17", "C09"]),
                 fam("rd-MPS-k2", "prod", "rd", {"fmt": "MPS", "k": 2}, weight=2, crash_props=["C17", "C09"])],
    "bounds": {"quick": "<= 2 deviations single step; <= 1 deviation x all 7 conversion sequences of length <= 3 from each format", "thorough": "<= 3 deviations single step; <= 2 deviations x conversion sequences"},
    "evidence": {"states": ["instances"], "transitions": ["executions"], "nontrivial": ["instances_nontrivial"]},
    "assumptions": IO_ASSUME,
}
PLANS["C10"] = {
    "title": "files are read as the exact problem their text denotes",
    "rule": ("family 'num': every string of length <= len over the alphabet 0 1 7 . e E + - / followed by NUL, blank or a letter, through mpq_ILLget_value, against an independent recursive-descent reference of the "
             "literal grammar [sign] digits [. digits] [e [sign] digits] [/ literal]: wherever the reference's longest literal is what the scanner consumed the values must be the identical rational; "
             "family 'rd': 62 base problems (plain 2x2 + one feature) rendered as LP or MPS text by an independent renderer under a rendering-choice vector (LP: 21 coordinates - keyword spellings and case, "
             "coefficient 1 omitted/written, repeated and cancelling terms, term order, spacing, line breaks, comments, blank lines, bound forms, number spellings (integer, decimal, exponent, unreduced fraction, zero padded), "
             "row/objective names omitted, ...; MPS: 12 coordinates - spacing, 6 RANGES representations, alternative bound types, OBJSENSE/OBJNAME, blank set names, two entries per line, comments, RHS on the objective row, ...) "
             "with <= k non-default coordinates; the problem read must equal the model the text was rendered from, names and all numbers exactly; non-trivial = at least one non-default rendering choice / a string that contains a literal"),
    "quick": [fam("num-len7", "prod", "num", {"len": 7}, weight=2, crash_props=["C17", "C10", "C11"]),
              fam("rd-LP-k2", "prod", "rd", {"fmt": "LP", "k": 2, "post": 0}, weight=3, crash_props=["C17", "C10"]),
              fam("rd-MPS-k2", "prod", "rd", {"fmt": "MPS", "k": 2, "post": 0}, weight=2, crash_props=["C17", "C10"]),
              fam("rd-LP-k1-san", "san", "rd", {"fmt": "LP", "k": 1, "post": 0}, weight=1, crash_props=["C17", "C10"]),
              fam("rd-MPS-k1-san", "san", "rd", {"fmt": "MPS", "k": 1, "post": 0}, weight=1, crash_props=["C17", "C10"])],
    "thorough": [fam("num-len7", "prod", "num", {"len": 7}, weight=2, crash_props=["C17", "C10", "C11"]), fam("num-len6-san", "san", "num", {"len": 6}, weight=2, crash_props=["C17", "C10", "C11"]),
                 fam("rd-LP-k2", "prod", "rd", {"fmt": "LP", "k": 2}, weight=3, crash_props=["C17", "C10"]),
                 fam("rd-MPS-k2", "prod", "rd", {"fmt": "MPS", "k": 2}, weight=2, crash_props=["C17", "C10"]),
                 fam("rd-LP-k2-san", "san", "rd", {"fmt": "LP", "k": 2, "post": 0}, weight=4, crash_props=["C17", "C10"]),
                 fam("rd-MPS-k2-san", "san", "rd", {"fmt": "MPS", "k": 2, "post": 0}, weight=3, crash_props=["C17", "C10"])],
    "bounds": {"quick": "all 16M strings of length <= 7 x 3 terminators; all rendering vectors with <= 2 non-default coordinates (56854 LP files, 13482 MPS files)", "thorough": "strings of length <= 7 again plus length <= 6 on the sanitizer build (length 8 brings six-digit exponents, i.e. numbers of 10^5 digits: outside the property's scope and hours of arithmetic); post-read write/re-read of every file; sanitizer build at <= 2 deviations"},
    "evidence": {"states": ["instances"], "transitions": ["executions"], "nontrivial": ["instances_nontrivial"]},
    "assumptions": IO_ASSUME + ["a literal that is immediately followed by characters which make the whole token ungrammatical (\"0E.\") is outside 'syntactically valid file'; the scanner's behaviour there is counted, not judged",
                                "in free-format MPS a blank set name is only recognisable when a number follows the row/column name; the renderer therefore never leaves the BOUNDS set name blank"],
}
PLANS["C19"] = {
    "title": "the esolver program reports exactly what the library computed",
    "rule": ("item = (LP instance of the named family written by the library as one of 8 file kinds (.lp .mps .lp.gz .mps.bz2 .lp.bz2 .mps.gz, extension-less with and without -L), option vector with <= dev non-default options out of "
             "-O sol[.gz|.bz2], -p k, -d k, -S, -P bits, -b/-B round trip); esolver is run as a child process; exit status, status line (against the Fourier-Motzkin truth of the problem as re-read from the file), and for OPTIMAL "
             "the exact optimality certificate rebuilt from the listed non-zero VARS / REDUCED COST / PI / SLACK are checked; 32 malformed or unreadable inputs must give a non-zero exit without a signal; own=1: the harness renders the .lp/.mps text itself (no library code) under legal but unusual names (pct%d, sh%%re, x%5.2fy, v.1{a}, r%x, c%%1, lim&2, row~3) and the model is the instance itself; "
             "non-trivial = instance with a row and a non-zero coefficient"),
    "quick": [fam("esol-T-dev1", "prod", "esol", {"fam": "T", "dev": 1, "kinds": "basic", "tscale": 30}, weight=3, crash_props=["C17", "C19"], esolver="prod", timeout=300),
              fam("esol-S0q1-own", "prod", "esol", {"fam": "S0q1", "dev": 0, "kinds": "basic", "own": 1}, weight=3, crash_props=["C17", "C19"], esolver="prod", timeout=120),
              fam("esol-S0q1-dev0", "prod", "esol", {"fam": "S0q1", "dev": 0, "kinds": "basic", "bad": 1}, weight=3, crash_props=["C17", "C19"], esolver="prod", timeout=120)],
    "deadline": {"quick": 900, "thorough": 1500},
    "thorough": [fam("esol-S0q1-own-dev1", "prod", "esol", {"fam": "S0q1", "dev": 1, "kinds": "basic", "own": 1}, weight=6, crash_props=["C17", "C19"], esolver="prod", timeout=120),
                 fam("esol-S0q1-dev1-all", "prod", "esol", {"fam": "S0q1", "dev": 1, "kinds": "all", "bad": 1}, weight=10, crash_props=["C17", "C19"], esolver="prod", timeout=120),
                 fam("esol-T-dev1-all", "prod", "esol", {"fam": "T", "dev": 1, "kinds": "all"}, weight=4, crash_props=["C17", "C19"], esolver="prod", timeout=600),
                 fam("esol-S0q1-san", "prod", "esol", {"fam": "S0q1", "dev": 0, "kinds": "basic", "bad": 1, "mlimit": 35184372088832}, weight=3, crash_props=["C17", "C19"], esolver="san", timeout=300, env={"ASAN_OPTIONS": "detect_leaks=0"}, range=[0, 4000])],
    "bounds": {"quick": "S0q1 x default options x {.lp,.mps} + 32 malformed inputs; targeted family T x <= 1 option", "thorough": "S0q1 x <= 1 option x 8 file kinds; T x <= 1 option x 8 kinds; ASan build of esolver on a slice"},
    "evidence": {"states": ["instances"], "transitions": ["executions"], "nontrivial": ["instances_nontrivial"]},
    "assumptions": ["the model of an instance is the problem the library reads back from the written file, so file round-trip defects (C08-C10) stay out of this check",
                    "for a non-OPTIMAL status esolver is not required to write a basis with -b (the verdict may be reached without one)"] + LP_ASSUME,
}


# ---------------------------------------------------------------- C17 / C18 / C20: oracle layers over the other explorations
def twin(run):
    """second execution of the same item space in differently laid-out processes: other shard count (other item order per
    process), perturbed allocator contents, shifted stack/environment; transcripts must be identical"""
    b = dict(run)
    b["id"] = run["id"] + "#B"
    b["shards"] = 13
    env = dict(run.get("env", {}))
    env.update({"MALLOC_PERTURB_": "165", "VERIF_PAD": "x" * 3001})
    b["env"] = env
    b["twin_of"] = run["id"]
    return b


def c17_post(per_run, counters, runs, seed, tier):
    import subprocess, json, os, tempfile
    import vlib
    by = {r["id"]: r for r in per_run}
    viols, broken = [], []
    for r in runs:
        if "twin_of" not in r:
            continue
        a, b = by.get(r["twin_of"]), by.get(r["id"])
        if not a or not b or a.get("skipped") or b.get("skipped") or a["interrupted"] or b["interrupted"] or a["items_done"] != b["items_done"]:
            continue
        counters["determinism_items_compared"] = counters.get("determinism_items_compared", 0) + a["items_done"]
        if a["transcript_xor"] == b["transcript_xor"]:
            continue
        # locate the first differing item with per-item transcript dumps
        ra = [x for x in runs if x["id"] == r["twin_of"]][0]
        item = locate_diff(ra, r, seed, tier)
        viols.append({"t": "viol", "family": ra["family"], "item": item if item is not None else -1, "prop": "C17", "sig": "transcript-differs",
                      "msg": "statuses/solutions/bases/files differ between two executions of %s (shards 16 vs 13, MALLOC_PERTURB_, shifted stack): first differing item %s" % (ra["id"], item),
                      "_run": ra, "noreplay": True})
    return viols, broken


def locate_diff(ra, rb, seed, tier):
    import subprocess, json, os, tempfile, shutil
    import vlib
    d = tempfile.mkdtemp(prefix="trdiff", dir=vlib.CACHE)
    res = {}
    try:
        for tag, run in (("a", ra), ("b", rb)):
            exe = vlib.build_harness(run["variant"], "qsx", HARNESS_SOURCES)
            out = os.path.join(d, tag + ".jsonl")
            cmd = [exe, run["family"], "--out", out, "--trdump", "--shard", "0/1"]
            for k, v in run.get("opts", {}).items():
                cmd += ["--opt", "%s=%s" % (k, v)]
            env = dict(os.environ); env.update(vlib.SAN_ENV); env.update(run.get("env", {}))
            subprocess.run(cmd, env=env, stdout=subprocess.DEVNULL, stderr=subprocess.DEVNULL, timeout=3600)
            h = {}
            for ln in open(out, errors="replace"):
                try:
                    j = json.loads(ln)
                except Exception:
                    continue
                if j.get("t") == "tr":
                    h[j["item"]] = j["h"]
            res[tag] = h
        for it in sorted(res["a"]):
            if res["b"].get(it) != res["a"][it]:
                return it
    except Exception:
        return None
    finally:
        shutil.rmtree(d, ignore_errors=True)
    return None


_c17_quick_base = [
    hist("hist-d2-san", "san", 2, weight=2), SW3,
    hist("inv-d0-san", "san", 0, family="inv", weight=1),       # the invalid calls after a one-operation prefix run on this build in C07/C18 quick and in this check's thorough tier
    lp("S0mk-sanl1-k1x", "sanl1", "S0mk", "k1x", weight=3),
    fam("rd-LP-k1-san", "san", "rd", {"fmt": "LP", "k": 1}, weight=1),
    fam("rd-MPS-k1-san", "san", "rd", {"fmt": "MPS", "k": 1}, weight=1),
    fam("wr-LP-k1-san", "san", "wr", {"fmt": "LP", "k": 1, "chain": 1}, weight=1),
    fam("basis-S1q-san", "san", "basis", {"fam": "S1q", "verify": 0}, weight=2),
    fam("copy-s1-san", "san", "copy", {"steps": 1}, weight=3),
    fam("lowp-SN1-san", "san", "lowp", {"fam": "SN1"}, weight=1),
    fam("cpar-prod", "prod", "cpar", {}, weight=2, crash_props=["C17", "C16"]),   # glibc aborts on the double free a shared pricing array gives; cpar-san is in C16/C17 thorough
]
_det_quick = [hist("hist-d2-prod", "prod", 2, weight=1), lp("S0q1-k1-prodl1", "prodl1", "S0q1", "k1", weight=2),
              fam("wr-MPS-k1-prod", "prod", "wr", {"fmt": "MPS", "k": 1, "chain": 1}, weight=1)]
VALGRIND = ["valgrind", "-q", "--error-exitcode=99", "--exit-on-first-error=yes", "--track-origins=no", "--undef-value-errors=yes", "--leak-check=no", "--child-silent-after-fork=no"]
PLANS["C17"] = {
    "title": "no call sequence or input is memory-unsafe, and results are reproducible",
    "rule": ("the union of the explorations of the other properties executed on the AddressSanitizer + UndefinedBehaviorSanitizer build (GMP memory routed to the system allocator, -DEG_LPNUM_MEMSLAB=0): any sanitizer "
             "report, signal or exit() inside the library is attributed to the item that was executing (forked workers, shared progress cell); reproducibility: every item records a transcript hash of all statuses, "
             "rationals, bases and written files, and selected explorations are executed twice - 16 versus 13 shards (different item order per process), MALLOC_PERTURB_, shifted stack - with the XOR of the per-item "
             "hashes compared (a difference is located by a per-item transcript dump); thorough adds Valgrind memcheck (uninitialised values fatal) on the -O2 build"),
    "quick": [dict(r, range=[0, 8000]) if r["id"] == "copy-s1-san" else r for r in _c17_quick_base] + _det_quick + [twin(r) for r in _det_quick],
    "thorough": _c17_quick_base + [hist("inv-d1r-san", "san", 1, reduced=1, family="inv", weight=3), fam("cpar-san", "san", "cpar", {}, weight=3, crash_props=["C17", "C16"]), hist("hist-d3r-san", "san", 3, reduced=1, weight=6), fam("copy-s2-san", "san", "copy", {"steps": 2}, weight=1, range=[0, 150000]),
                                   lp("S0c-sanl1-default", "sanl1", "S0c", "default", weight=4), lp("T-san-default", "san", "T", "default", weight=3, opts={"fam": "T", "cfg": "default", "tscale": 30}),
                                   hist("hist-d2-valgrind", "prod", 2, weight=8, wrapper=VALGRIND, timeout=600),
                                   lp("S0q1-valgrind", "prodl1", "S0q1", "k1x", weight=4, wrapper=VALGRIND, timeout=600),
                                   hist("hist-d3r-prod", "prod", 3, reduced=1, weight=2), lp("S0c-k1-prodl1", "prodl1", "S0c", "k1", weight=6)]
                + [twin(hist("hist-d3r-prod", "prod", 3, reduced=1, weight=2)), twin(lp("S0c-k1-prodl1", "prodl1", "S0c", "k1", weight=6))] + _det_quick + [twin(r) for r in _det_quick],
    "post": c17_post,
    "deadline": {"quick": 1200, "thorough": 2400},
    "bounds": {"quick": "sanitizer build: depth-2 histories, solve ; op ; solve histories, the invalid calls on the start problems, S0mk x entry/pricing/scaling configurations, rendered and written files, all bases of S1q, the first 8000 copy interleavings (all of them in C16/C18 quick and here in thorough); double execution of depth-2 histories, S0q1 x K<=1 and MPS chains",
               "thorough": "adds depth-3 reduced histories and S0c/T on the sanitizer build, Valgrind memcheck on depth-2 histories and S0q1, double execution of depth-3 histories and S0c x K<=1"},
    "evidence": {"states": ["histories", "instances", "invalid_calls", "bases"], "transitions": ["api_transitions", "executions"], "nontrivial": ["histories", "instances_nontrivial", "invalid_calls"]},
    "assumptions": ["clang UBSan's pointer-overflow check is disabled: it flags NULL+0 in ILLlib_newrows on the path the repository's own test takes; no access is performed",
                    "a transcript excludes log text (display lines contain elapsed time)"] + HIST_ASSUME,
}
for r in PLANS["C17"]["quick"] + PLANS["C17"]["thorough"]:
    r["crash_props"] = sorted(set(r.get("crash_props", []) + ["C17"]))

_c18_runs_q = [hist("hist-d2-san", "san", 2, weight=3), hist("inv-d1r-san", "san", 1, reduced=1, family="inv", weight=4), hist("inv-d0-san", "san", 0, family="inv", weight=1),
               fam("copy-s1-san", "san", "copy", {"steps": 1}, weight=3)]
PLANS["C18"] = {
    "title": "everything allocated is released: create/free cycles do not leak",
    "rule": ("every history / invalid-call / copy item is bracketed: bytes allocated (sanitizer allocator statistics, GMP included) are read before QSexactStart() and after every problem, basis and returned array was freed through its "
             "documented function and QSexactClear() was called; any difference is a leak attributed to that item (this covers reachable-but-forgotten and lost memory alike). Early exits are the point: every rejected call of C07 "
             "and every history ending in a failed or non-OPTIMAL solve is such an item; the reader families add every parse-error exit"),
    "quick": _c18_runs_q,
    "thorough": _c18_runs_q + [hist("hist-d3r-san", "san", 3, reduced=1, weight=8), hist("inv-d1-san", "san", 1, family="inv", weight=6)],
    "bounds": {"quick": "depth-2 histories, all invalid calls from depth-0 and depth-1 (reduced) lifecycle states, copy interleavings of 1 step", "thorough": "adds depth-3 reduced histories and invalid calls from all depth-1 states"},
    "evidence": {"states": ["mem_balance_checked"], "transitions": ["api_transitions"], "nontrivial": ["mem_balance_checked"]},
    "assumptions": ["allocation failure is not injected: EGmalloc / ILL_SAFE_MALLOC terminate the process on exhaustion by design, so no 'failed part-way and returned' state exists for it"] + HIST_ASSUME,
}
_c20_q = [hist("hist-d2-san", "san", 2, weight=3), hist("inv-d1-prod", "prod", 1, family="inv", weight=3), lp("S0q1-k1", "prodl1", "S0q1", "k1", weight=3),
          fam("rd-LP-k1", "prod", "rd", {"fmt": "LP", "k": 1}, weight=1), fam("wr-MPS-k1", "prod", "wr", {"fmt": "MPS", "k": 1, "chain": 1}, weight=1)]
PLANS["C20"] = {
    "title": "with a log handler installed the library writes nothing to stdout or stderr",
    "rule": ("file descriptors 1 and 2 are redirected to a memfd for the whole item while a QSlog handler is installed; after the item the memfd must be empty. Items: every history (successful and failing calls), every "
             "invalid call (rejected arguments, missing files), every solve of the LP families under every display level 0-3 (configuration lattice K<=1), every file written/read by the format families"),
    "quick": _c20_q,
    "thorough": _c20_q + [hist("hist-d3r-prod", "prod", 3, reduced=1, weight=3), lp("T-k1", "prod", "T", "k1", weight=3, opts={"fam": "T", "cfg": "k1", "tscale": 30}), lp("Sillq-k1", "prodl1", "Sillq", "k1", weight=2)],
    "bounds": {"quick": "depth-2 histories, 95k invalid calls, S0q1 x K<=1 (display 0..3), rendered LP files, MPS conversion chains", "thorough": "adds depth-3 reduced histories, family T and ill-formed bounds x K<=1"},
    "evidence": {"states": ["histories", "invalid_calls", "instances"], "transitions": ["api_transitions", "executions"], "nontrivial": ["histories", "invalid_calls", "instances_nontrivial"]},
    "assumptions": ["calls documented to write to a caller-supplied FILE*/filename are not issued with stdout as target",
                    "message fragmentation (one handler call per character of an offending token in the LP reader) is not flagged: no byte bypasses the handler"] + HIST_ASSUME,
}

def fac(id, variant, opts, weight=1, family="factor", **kw):
    return fam(id, variant, family, opts, weight=weight, crash_props=["C17", "C13"], **kw)


PLANS["C13"] = {
    "title": "LU-based solves are exact: B^-1 B = I for every basis and update history",
    "rule": ("family 'factor' (component level, mpq_ILLfactor* driven with the protocol of basis.c): item = (matrix, parameter setting); every square matrix of the stated dimension over the stated alphabet, or 12 structured patterns "
             "(triangular, bidiagonal, arrow, dense, singletons, tridiagonal, blocks, rank-deficient, cyclic, Hessenberg, mixed) x 3 permutations x value variants over {1,-1,2,1/3} for larger dimensions; for every matrix the library "
             "reports non-singular EVERY sequence of <= upd column replacements (position x candidate column) is executed (ftran_update then ILLfactor_update) under the parameter settings default / ETAMAX=1 / ETAMAX=2 / minimal space "
             "multipliers / dense tail forced; oracle: independent exact Gauss: singular iff reported singular; after every factor/update ftran and btran of every unit vector and dense right-hand sides multiply back exactly with the "
             "CURRENT matrix; a singular replacement is reported, refactor requests are honoured as basis.c does; 'chain' adds one chain of N replacements. family 'binv' (API level): every LP of the family x primal/dual x scaling x "
             "pricing x (complete run + iteration limits) and single pivot-ins after an optimal solve: row_i(B^-1) B = e_i and tableau row = row_i(B^-1) [A|logicals] with the reported basis order, through the in-situ factorization "
             "(with its accumulated updates), the public accessors and the exported lib functions; non-trivial = at least one update / simplex iteration happened"),
    "quick": [hist("hist-sw3-binv-san", "san", 3, weight=2, crash_props=["C17", "C13"], opts={"depth": 3, "reduced": 0, "sandwich": 1, "binv": 1}), fac("factor-d2-u2", "prod", {"dim": 2, "upd": 2, "set": "012345"}, weight=3), fac("factor-d3pm-u1", "prod", {"dim": 3, "alpha": "pm", "upd": 1, "set": "012345"}, weight=5),
              fac("factor-d4-u1", "prod", {"dim": 4, "upd": 1, "set": "5123"}, weight=2), fac("factor-d5-u1", "prod", {"dim": 5, "upd": 1}, weight=1), fac("factor-d8-u1", "prod", {"dim": 8, "upd": 1}, weight=1),
              fac("factor-d24-chain-san", "san", {"dim": 24, "upd": 0, "chain": 200, "nvar": 2, "set": "512"}, weight=2),
              fac("binv-T", "prod", {"fam": "T", "price": "both", "lims": "1,2,3,5,8,13,21,34,55", "tscale": 30}, weight=2, family="binv", timeout=300),
              fac("binv-S0q1", "prod", {"fam": "S0q1"}, weight=2, family="binv", timeout=300)],
    "thorough": [fac("factor-d3-u1", "prod", {"dim": 3, "upd": 1, "set": "5123"}, weight=6), fac("factor-d3pm-u2", "prod", {"dim": 3, "alpha": "pm", "upd": 2, "set": "5123"}, weight=7),
                 fac("factor-d2-u3", "prod", {"dim": 2, "upd": 3, "set": "5123"}, weight=4), fac("factor-d4-u2", "prod", {"dim": 4, "upd": 2, "set": "5"}, weight=6),
                 fac("factor-d6-u2", "prod", {"dim": 6, "upd": 2, "nvar": 4}, weight=1), fac("factor-d8-u2", "prod", {"dim": 8, "upd": 2, "nvar": 4}, weight=4),
                 fac("factor-d24-u1", "prod", {"dim": 24, "upd": 1, "nvar": 4, "set": "52"}, weight=3), fac("factor-d8-chain", "prod", {"dim": 8, "upd": 0, "chain": 400, "nvar": 4, "set": "01234", "mat": "pat"}, weight=1),
                 fac("factor-d3pm-u1-san", "san", {"dim": 3, "alpha": "pm", "upd": 1, "set": "5123"}, weight=6),
                 fac("binv-S0q", "prod", {"fam": "S0q"}, weight=7, family="binv", timeout=300), fac("binv-T-san", "san", {"fam": "T", "price": "both", "tscale": 30}, weight=3, family="binv", timeout=600)],
    "bounds": {"quick": "all 2x2 matrices over {-1,0,1,2} x all update sequences of length <= 2 x 6 settings; all 3x3 over {-1,0,1} x <= 1 update x 6 settings; all 4x4 over {0,1} x <= 1 update; patterns of dimension 5, 8; chains of 200 updates at dimension 24 (sanitizer build); binv on T and S0q1",
               "thorough": "all 3x3 over {-1,0,1,2} x <= 1 update; 3x3 over {-1,0,1} x <= 2 updates; 2x2 x <= 3 updates; 4x4 over {0,1} x <= 2 updates; patterns up to dimension 24; binv on S0q"},
    "evidence": {"states": ["instances"], "transitions": ["executions"], "nontrivial": ["instances_nontrivial"]},
    "assumptions": ["the library may refuse an update and ask for refactorization; the harness then refactors as basis.c does and continues",
                    "mpq_QSget_binv_row / tableau_row may fail when no factorization or optimal solution is current: counted, not flagged"] + LP_ASSUME,
}

def rdr(id, variant, opts, weight=1, **kw):
    return fam(id, variant, "rdr", opts, weight=weight, crash_props=["C17", "C11"], timeout=20, **kw)


_c11_q = [rdr("rdr-rec-mps-k4", "sanl1", {"mode": "rec", "fmt": "mps", "k": 4}, weight=3), rdr("rdr-rec-lp-k4", "sanl1", {"mode": "rec", "fmt": "lp", "k": 4}, weight=1), rdr("rdr-rec-bas-k4", "sanl1", {"mode": "rec", "fmt": "bas", "k": 4}, weight=1),
          rdr("rdr-own", "sanl1", {"mode": "own"}), rdr("rdr-own-reader", "sanl1", {"mode": "own", "via": "reader"}), rdr("rdr-trunc", "sanl1", {"mode": "trunc"}), rdr("rdr-trunc-reader", "sanl1", {"mode": "trunc", "via": "reader"}), rdr("rdr-trunc-gz", "sanl1", {"mode": "trunc", "comp": "gz"}),
          rdr("rdr-trunc-bz2", "sanl1", {"mode": "trunc", "comp": "bz2"}), rdr("rdr-long", "sanl1", {"mode": "long"}), rdr("rdr-long-reader", "sanl1", {"mode": "long", "via": "reader"}),
          rdr("rdr-tok-lp-k3", "sanl1", {"mode": "tok", "fmt": "lp", "k": 3}, weight=2), rdr("rdr-tok-lp-k2-reader", "sanl1", {"mode": "tok", "fmt": "lp", "k": 2, "via": "reader"}),
          rdr("rdr-tok-mps-k2", "sanl1", {"mode": "tok", "fmt": "mps", "k": 2}), rdr("rdr-tok-mps-k2-reader", "sanl1", {"mode": "tok", "fmt": "mps", "k": 2, "via": "reader"}),
          rdr("rdr-tok-bas-k4", "sanl1", {"mode": "tok", "fmt": "bas", "k": 4}, weight=4), rdr("rdr-mut", "sanl1", {"mode": "mut"}, weight=4), rdr("rdr-mut-reader", "sanl1", {"mode": "mut", "via": "reader"}, weight=4)]
PLANS["C11"] = {
    "title": "no input file can crash, hang or corrupt the reader",
    "rule": ("exhaustive enumeration of finite neighbourhoods of 13 embedded valid files (6 LP, 5 MPS incl. SOS/REFROW, 2 basis): mode tok = every sequence of <= k tokens over a 24/33/11-token alphabet appended to each valid prefix; "
             "mode mut = every single token edit (delete, duplicate, replace by each alphabet token, swap) at every token position and every byte edit (delete, 0x00, 0xFF, newline, ':', '/', '-', '9') at every byte position, radius=2 adds "
             "every pair of token edits within a 6-token window; mode rec = every sequence of <= k whole records (lines) from a 21/14/8-record alphabet after each valid prefix (sections out of order, repeated and interleaved, records of one section inside another); mode own = every token replaced by every other distinct token of the same file (cross references such as a ranged row named as OBJNAME, 40k files); mode trunc = every byte prefix, plain and as a gzip/bzip2 stream cut at every byte; mode long = names, lines and digit strings around the internal buffer sizes "
             "(126..256, 131070..131073 characters, 1..4000 digits). Each input goes through mpq_QSread_prob (and via=reader: the line-reader API with a memory error collector, every record walked and printed) or the basis readers; "
             "oracle: the forked worker survives (sanitizer build), returns within 20 s, NULL or a problem that passes the full query-conformance dump against its own read-back, can be written in both formats, solved and freed; "
             "fd 1/2 stay empty; allocation balance is zero; non-trivial = input differs from every base file and is not empty. Inputs with exponents of >= 5 digits are out of scope as the property says"),
    "quick": _c11_q,
    "thorough": _c11_q + [rdr("rdr-rec-mps-k5-reader", "sanl1", {"mode": "rec", "fmt": "mps", "k": 4, "via": "reader"}, weight=4), rdr("rdr-rec-lp-k5", "sanl1", {"mode": "rec", "fmt": "lp", "k": 5}, weight=6), rdr("rdr-tok-lp-k4", "sanl1", {"mode": "tok", "fmt": "lp", "k": 4}, weight=12), rdr("rdr-tok-mps-k3", "sanl1", {"mode": "tok", "fmt": "mps", "k": 3}, weight=4),
                          rdr("rdr-tok-bas-k5", "sanl1", {"mode": "tok", "fmt": "bas", "k": 5}, weight=8), rdr("rdr-mut2-bas", "sanl1", {"mode": "mut", "radius": 2, "fmt": "bas"}, weight=4),
                          rdr("rdr-mut2-lp", "sanl1", {"mode": "mut", "radius": 2, "fmt": "lp"}, weight=16), rdr("rdr-tok-lp-k4-prod", "prodl1", {"mode": "tok", "fmt": "lp", "k": 4}, weight=4)],
    "bounds": {"quick": "token sequences: LP <= 3, MPS <= 2, basis <= 4; all single token/byte edits of the 13 base files; all truncations incl. compressed; length family",
               "thorough": "token sequences: LP <= 4 (1.38M), MPS <= 3, basis <= 5; all pairs of token edits within a 6-token window for basis and LP files"},
    "evidence": {"states": ["instances"], "transitions": ["executions"], "nontrivial": ["instances_nontrivial"]},
    "deadline": {"quick": 900, "thorough": 1500},
    "assumptions": ["the claim is over the enumerated neighbourhoods, not over all byte strings of up to 64 KiB",
                    "sanl1 = sanitizer build with the one-level mpf ladder (the solve after a successful read is a smoke test, not the subject)"],
}
for _pid, _runs in (("C17", [rdr("rdr-own", "sanl1", {"mode": "own"}, weight=1), rdr("rdr-mut", "sanl1", {"mode": "mut"}, weight=3), rdr("rdr-tok-lp-k3", "sanl1", {"mode": "tok", "fmt": "lp", "k": 3}, weight=1), rdr("rdr-trunc", "sanl1", {"mode": "trunc"}, weight=1)]),
                    ("C18", [rdr("rdr-own-reader", "sanl1", {"mode": "own", "via": "reader"}, weight=1), rdr("rdr-mut-reader", "sanl1", {"mode": "mut", "via": "reader"}, weight=3), rdr("rdr-trunc-reader", "sanl1", {"mode": "trunc", "via": "reader"}, weight=1), rdr("rdr-tok-mps-k2-reader", "sanl1", {"mode": "tok", "fmt": "mps", "k": 2, "via": "reader"}, weight=1)]),
                    ("C20", [rdr("rdr-mut", "sanl1", {"mode": "mut"}, weight=3), rdr("rdr-long", "sanl1", {"mode": "long"}, weight=1)])):
    for _r in _runs:
        _r["crash_props"] = sorted(set(_r["crash_props"] + [_pid]))
    PLANS[_pid]["quick"] = PLANS[_pid]["quick"] + _runs
    PLANS[_pid]["thorough"] = PLANS[_pid]["thorough"] + _runs
    PLANS[_pid]["evidence"]["states"] = PLANS[_pid]["evidence"]["states"] + (["instances"] if "instances" not in PLANS[_pid]["evidence"]["states"] else [])
    PLANS[_pid]["evidence"]["transitions"] = PLANS[_pid]["evidence"]["transitions"] + (["executions"] if "executions" not in PLANS[_pid]["evidence"]["transitions"] else [])
NOT_YET = {}

# ---------------------------------------------------------------- MANIFEST texts (tools/mkmanifest.py reads these)
_TB = ("trusted base: the reference side in harness/ref.c (dense rational LP model, exact certificate checkers, Fourier-Motzkin solver whose witnesses are "
       "re-verified before use), GMP, the compilers and sanitizer runtimes; coverage is exactly the enumerated item space stated in the evidence file - nothing is claimed beyond those bounds")
LEVELS = {
    "C01": ("every LP of the enumerated alphabets x every solver configuration of the lattice is solved by the real library and each OPTIMAL answer is re-derived from the reference model by an exact certificate checker (primal and dual feasibility, complementary slackness, equal objective values, all in rationals); a wrong OPTIMAL anywhere in the space is therefore seen, not sampled",
            "stateless exhaustive enumeration (LP alphabet x configuration lattice with bounded deviations from the default configuration) on the real code; oracle = independent exact certificate checker on a reference model"),
    "C02": ("same exploration as C01; every INFEASIBLE answer must come with a ray y that the reference side verifies as an exact Farkas certificate (y or -y) against the model's standard form",
            "stateless exhaustive enumeration (LP alphabet x configuration lattice) on the real code; oracle = exact Farkas checker on a reference model"),
    "C03": ("the truth of each enumerated LP (status and optimal value) is computed by an independent Fourier-Motzkin reference solver whose witness (point + multipliers, Farkas multipliers, or ray) is verified exactly before it is believed; the library's status and value must be identical; the default precision ladder is used so that give-ups (UNSOLVED) on small problems are visible too",
            "stateless exhaustive enumeration of LP alphabets and targeted numeric families on the real code; oracle = self-verifying Fourier-Motzkin reference solver"),
    "C04": ("for every enumerated LP all configurations of the 12-coordinate lattice with <= k deviations from the default (entry point, algorithm, pricing, scaling, precision, warm start from every valid basis, iteration limits, repeats, construction route) must produce the status/value the reference truth dictates; disagreement between any two ways of driving the solver is thereby exposed",
            "deviation-bounded exhaustive enumeration of the driving-choice lattice x LP alphabet on the real code (iterative bounding: 0, 1, 2 deviations); oracle = reference truth + exact certificates"),
    "C05": ("explicit-state exploration of edit/solve histories: from each of 7 start problems every sequence of <= d transitions of a 66-operation alphabet (edits, solves, basis loads, deletions...) is applied to the real object and to the reference model; after each step the re-solve must equal a from-scratch solve of the model and cached solution queries must never be stale",
            "bounded-depth exhaustive enumeration of API operation histories on the real object in lock-step with a reference model (state = history replayed on a fresh object)"),
    "C06": ("same history space as C05 plus long growth histories; after every transition the complete query surface (counts, names, coefficients, bounds, senses, ranges, rows/columns lists, indices) is dumped from the real object and compared with the reference model",
            "bounded-depth exhaustive enumeration of API histories with full query-dump conformance against a reference model"),
    "C07": ("236 invalid calls (bad indices, NULLs, duplicate names, wrong senses, out-of-range counts ...) are issued after every history prefix of bounded depth; each must return an error and the full query dump before and after must be identical, and the object must remain usable",
            "exhaustive enumeration of (history prefix x invalid call) on the real object; oracle = error return + unchanged full query dump"),
    "C08": ("a base problem plus every combination of <= k of 123 feature deviations (names, bound shapes, senses, ranges, zero/negative/fractional/huge numbers, integrality, empty rows ...) is built in the real library, written in LP format, read back and compared name-by-name and number-by-number with the model; independent renderers also feed the reader and the result is written and re-read",
            "deviation-bounded exhaustive enumeration of problem features on the real writer+reader; oracle = reference model equality (identical rationals)"),
    "C09": ("as C08 for MPS output, plus every conversion chain of length <= 3 between the two formats from each starting format", 
            "deviation-bounded exhaustive enumeration of problem features x conversion chains on the real writers+readers; oracle = reference model equality"),
    "C10": ("every character string of bounded length over the number alphabet goes through the real number scanner and an independent recursive-descent reference; independent LP/MPS renderers produce every file with <= k non-default lexical/rendering choices from 62 base problems and the problem read must equal the model rendered",
            "exhaustive enumeration of all strings up to a length bound (number scanner) and of rendering-choice vectors with bounded deviations (file readers); oracle = reference grammar / reference model"),
    "C11": ("exhaustive finite neighbourhoods of 13 valid files - all token sequences up to length k after each valid prefix, all single (and windowed pairs of) token and byte edits, all truncations including compressed streams, names/lines/digit strings around internal buffer sizes - are fed to the real readers in sanitizer builds under a watchdog",
            "exhaustive enumeration of token-sequence/edit/truncation neighbourhoods on the real readers in ASan+UBSan builds with fork containment and watchdog"),
    "C12": ("for every LP of the alphabets every combination of column/row statuses with the right basic count is loaded through the real API; the library's verdict (accepted, singular, primal/dual feasible, optimal) is compared with exact Gaussian elimination on the model, and every basis the solver returns is checked the same way",
            "exhaustive enumeration of all status vectors of each enumerated LP on the real code; oracle = exact rational Gauss on the reference model"),
    "C13": ("all small integer matrices up to the explored dimension and structured families, each with all sequences of <= u column replacements (including singular ones and ones that force refactorization or space exhaustion), run through the real mpq LU factor/update/solve code; ftran/btran results and singularity verdicts are checked by exact multiplication; at API level every B^-1 row and tableau row after every pivot count is multiplied back",
            "exhaustive enumeration of (matrix x column-replacement sequence) on the real LU code and of (LP x iteration stop) on the real simplex; oracle = exact multiplication back"),
    "C14": ("for every valid basis of every enumerated LP: load, write to a file, read into a fresh copy, compare statuses; write twice and query after writing to show the basis is not consumed",
            "exhaustive enumeration of all valid bases of each enumerated LP through the real basis writer/reader"),
    "C15": ("22 meaning-preserving transformations (row/column permutations, scaling by powers of 2 and rationals, sign flips, column negation with mirrored bounds, slack introduction, bound-to-row conversion, duplicated rows ...) at depth <= d on every LP of the alphabets and on a catalogue of 24 structured LPs; status must be equal and values/solutions must map exactly",
            "bounded-depth exhaustive enumeration of transformation sequences x LP alphabet on the real solver; metamorphic oracle in exact arithmetic"),
    "C16": ("after every bounded history a copy is taken; the copy must pass the full query dump against the model, and then every single edit/solve/free applied to either of the two must leave the other's dump unchanged; precision-changing copies are compared value by value with correctly rounded conversions",
            "exhaustive enumeration of (history x copy point x subsequent operation on either side) on the real objects; oracle = full query-dump conformance"),
    "C17": ("the explorations of the other properties are re-run in ASan+UBSan builds (every item in a forked worker so a crash is attributed to its item) and in twin executions with different process layout, allocator poisoning and stack shift whose transcripts (statuses, values, bases, written files) must hash identically",
            "the exhaustive item spaces of C01-C16 executed under ASan/UBSan plus twin-run transcript comparison (different sharding, MALLOC_PERTURB_, shifted stack)"),
    "C18": ("allocation balance (sanitizer allocator byte counter before QSexactStart-level setup and after teardown) must be zero for every history, invalid call, copy scenario and rejected input file enumerated",
            "exhaustive enumeration of histories / invalid calls / rejected inputs in ASan builds; oracle = allocator byte balance per item"),
    "C19": ("esolver is run as a child process on every enumerated LP written in up to 8 file kinds with <= 1 non-default option; its exit status, status line and printed solution are checked against the reference truth and an exact certificate rebuilt from the printed numbers; malformed inputs must fail cleanly",
            "exhaustive enumeration of (LP x file kind x option vector with bounded deviations) on the real esolver binary; oracle = reference truth + exact certificate from the printed output"),
    "C20": ("with a log handler installed, file descriptors 1 and 2 are redirected to a memory file for every item of the histories, invalid calls, solves under display levels, readers fed with bad files, and writers; any byte written is a violation",
            "the exhaustive item spaces of C05/C07/C04/C10/C11 executed with fd 1 and 2 captured; oracle = capture is empty"),
}
for _pid, (_text, _tech) in LEVELS.items():
    _pl = PLANS[_pid]
    _b = _pl.get("bounds", {})
    _pl["level_text"] = _text + ". Bounds - quick: %s; thorough: %s." % (_b.get("quick", "see evidence"), _b.get("thorough", "see evidence"))
    _pl["technique"] = _tech
    _pl["level_note"] = "; ".join(_pl.get("assumptions", [])) + ("; " if _pl.get("assumptions") else "") + _TB

# hist runs that carry the C12 / C13 oracles into edit/solve histories
PLANS["C12"]["evidence"] = {"states": ["bases", "c12_returned_bases", "histories"], "transitions": ["executions", "api_transitions"], "nontrivial": ["bases_nonsingular", "c12_returned_nonsingular", "verd_states_checked"]}
PLANS["C13"]["evidence"] = {"states": ["instances", "histories"], "transitions": ["executions", "api_transitions"], "nontrivial": ["instances_nontrivial", "api_states_checked"]}
PLANS["C12"]["rule"] += ("; family hist with verd=1: after EVERY step of every history (depth 2 over the full alphabet; solve ; any operation ; solve) QSexact_basis_optimalstatus, QSexact_basis_dualstatus and QSexact_verify are called "
                         "on the problem's own current basis - the calls are part of the history, so state they keep across edits is exercised - and compared with exact elimination on the model as edited so far")
PLANS["C13"]["rule"] += ("; family hist with binv=1: after every OPTIMAL solve inside solve ; any operation ; solve histories (also on start problems built rows-first) mpq_QSget_basis_order / QSget_binv_row / QSget_tableau_row are multiplied back against the edited model")

# C01/C02 also hold after edits: the sandwich histories (solve ; any operation ; solve) judge the last solve's certificate
_SW3P = hist("hist-sw3-prod", "prod", 3, weight=1, crash_props=["C17", "C01", "C02"], opts={"depth": 3, "reduced": 0, "sandwich": 1, "cont": 1})
for _pid in ("C01", "C02"):
    PLANS[_pid]["quick"] = PLANS[_pid]["quick"] + [_SW3P]
    PLANS[_pid]["thorough"] = PLANS[_pid]["thorough"] + [_SW3P, hist("hist-d3r-prod", "prod", 3, reduced=1, weight=2, crash_props=["C17", "C01", "C02"])]
    PLANS[_pid]["rule"] = PLANS[_pid]["rule"] + "; family hist with sandwich=1: start problem ; solve ; any of the 67 operations ; solve - the certificate oracle is applied to the answers served after the last call (cached or re-solved)"
    PLANS[_pid]["evidence"] = {"states": ["instances", "histories"], "transitions": ["executions", "api_transitions"], "nontrivial": ["instances_nontrivial", "histories"]}

PLANS["C14"]["rule"] += ("; family hist: every write_basis step inside a history reads the file back and compares it with the basis mpq_QSget_basis reports (histories of depth 2, and solve ; any operation ; write_basis)")

# C08 / C09 inside histories: every write_prob step of a depth-2 history reads the file back and compares it with the edited model
for _pid in ("C08", "C09"):
    _h = hist("hist-d2-prod", "prod", 2, weight=1, crash_props=["C17", _pid])
    PLANS[_pid]["quick"] = PLANS[_pid]["quick"] + [_h]
    PLANS[_pid]["thorough"] = PLANS[_pid]["thorough"] + [_h, hist("hist-d3-prod", "prod", 3, weight=6, crash_props=["C17", _pid])]
    PLANS[_pid]["rule"] += "; family hist: every write_prob step inside a history (depth 2 over the full alphabet of 67 operations from 10 start problems) is read back and compared with the edited model"
    PLANS[_pid]["evidence"] = {"states": PLANS[_pid]["evidence"]["states"] + ["histories"], "transitions": PLANS[_pid]["evidence"]["transitions"] + ["api_transitions"], "nontrivial": PLANS[_pid]["evidence"]["nontrivial"] + ["roundtrips_in_histories"]}

# ---------------------------------------------------------------- thorough tiers sized to their deadlines (16 cores; a run the deadline interrupts is reported as such)
def _dl(pid, quick=None, thorough=None):
    d = dict(PLANS[pid].get("deadline", {}))
    if quick: d["quick"] = quick
    if thorough: d["thorough"] = thorough
    PLANS[pid]["deadline"] = d

_H3R_SAN = hist("hist-d3r-san", "san", 3, reduced=1, weight=4)
_H3_PROD = hist("hist-d3-prod", "prod", 3, weight=12)
PLANS["C05"]["thorough"] = [hist("hist-d2-san", "san", 2), SW3, _H3R_SAN, _H3_PROD]
PLANS["C05"]["bounds"] = dict(PLANS["C05"]["bounds"], thorough="depth 3 over the full alphabet (2.9M histories, -O2 build), depth 3 over the reduced alphabet on the sanitizer build")
_dl("C05", thorough=2400)
PLANS["C06"]["thorough"] = PLANS["C05"]["thorough"] + [fam("grow-san", "san", "grow", {}, weight=1, crash_props=["C17", "C06"], timeout=300), fam("grow-prod", "prod", "grow", {}, weight=1, crash_props=["C17", "C06"], timeout=300)]
PLANS["C06"]["bounds"] = PLANS["C05"]["bounds"]
_dl("C06", thorough=2400)
_dl("C07", thorough=1800)
for _pid in ("C08", "C09"):
    PLANS[_pid]["thorough"] = [r for r in PLANS[_pid]["thorough"] if r["id"] != "hist-d3-prod"] + [hist("hist-d3r-prod", "prod", 3, reduced=1, weight=1, crash_props=["C17", _pid])]
PLANS["C11"]["thorough"] = [r for r in PLANS["C11"]["thorough"] if r["id"] not in ("rdr-tok-lp-k4-prod", "rdr-mut2-lp")] + [r for r in PLANS["C11"]["thorough"] if r["id"] == "rdr-mut2-lp"]
_dl("C11", thorough=2400)
PLANS["C12"]["thorough"] = [hist("hist-d2-verd", "prod", 2, weight=1, crash_props=["C17", "C12"], opts={"depth": 2, "reduced": 0, "verd": 1}),
                            hist("hist-sw3-verd", "prod", 3, weight=1, crash_props=["C17", "C12"], opts={"depth": 3, "reduced": 0, "sandwich": 1, "verd": 1}),
                            hist("hist-d3r-verd", "prod", 3, weight=2, crash_props=["C17", "C12"], opts={"depth": 3, "reduced": 1, "verd": 1}),
                            fam("basis-S0c", "prod", "basis", {"fam": "S0c", "files": 0}, weight=6, crash_props=["C17", "C12"]),
                            fam("basis-Sbq", "prod", "basis", {"fam": "Sbq", "files": 0}, weight=2, crash_props=["C17", "C12"]),
                            fam("basis-S1q-san", "san", "basis", {"fam": "S1q", "files": 0}, weight=3, crash_props=["C17", "C12"]),
                            lp("S0q1-k1", "prodl1", "S0q1", "k1", weight=2), lp("Sbq-k1", "prodl1", "Sbq", "k1", weight=2), lp("T-k1", "prod", "T", "k1", weight=3, opts={"fam": "T", "cfg": "k1", "tscale": 30})]
PLANS["C12"]["bounds"] = dict(PLANS["C12"].get("bounds", {}), thorough="all bases of S0c (487k LPs), Sbq, S1q (sanitizer build); verdict oracle inside histories of depth 3 (reduced alphabet); returned bases of S0q1, Sbq, T x K<=1")
PLANS["C14"]["thorough"] = [hist("hist-sb3", "prod", 3, weight=1, crash_props=["C17", "C14"], opts={"depth": 3, "reduced": 0, "sandwich": 2}),
                            hist("hist-sb4", "prod", 4, weight=3, crash_props=["C17", "C14"], opts={"depth": 4, "reduced": 0, "sandwich": 2}),
                            fam("basisfile-S0c", "prod", "basis", {"fam": "S0c", "files": 1, "verify": 0}, weight=6, crash_props=["C17", "C14"]),
                            fam("basisfile-Sbq", "prod", "basis", {"fam": "Sbq", "files": 1, "verify": 0}, weight=2, crash_props=["C17", "C14"]),
                            fam("basisfile-S1q-san", "san", "basis", {"fam": "S1q", "files": 1, "verify": 0}, weight=2, crash_props=["C17", "C14"]),
                            hist("hist-d3r-prod", "prod", 3, reduced=1, weight=2, crash_props=["C17", "C14"])]
PLANS["C14"]["bounds"] = dict(PLANS["C14"].get("bounds", {}), thorough="every valid basis of S0c (487k LPs), Sbq, S1q (sanitizer build); solve ; op ; op ; write_basis histories")
PLANS["C15"]["thorough"] = [fam("meta-S0q1-d2", "prodl1", "meta", {"fam": "S0q1", "depth": 2}, weight=8, crash_props=["C17", "C15"], timeout=900),
                            fam("meta-T-d2", "prod", "meta", {"fam": "T", "depth": 2, "tscale": 30}, weight=5, crash_props=["C17", "C15"], timeout=900),
                            fam("meta-CAT-d2", "prod", "meta", {"fam": "CAT", "depth": 2}, weight=4, crash_props=["C17", "C15"], timeout=900),
                            fam("meta-S0q1-d1-primal", "prodl1", "meta", {"fam": "S0q1", "depth": 1, "algo": "primal"}, weight=1, crash_props=["C17", "C15"], timeout=900),
                            fam("meta-CAT-d2-primal", "prod", "meta", {"fam": "CAT", "depth": 2, "algo": "primal"}, weight=3, crash_props=["C17", "C15"], timeout=900)]
PLANS["C15"]["bounds"] = dict(PLANS["C15"].get("bounds", {}), thorough="all pairs of transformations (depth 2) on S0q1, T and the 24-LP catalogue; primal start on S0q1 (depth 1) and the catalogue (depth 2)")
_dl("C15", thorough=1800)
_dl("C16", thorough=1800)
_dl("C18", thorough=1800)
# C17 thorough: what the other thorough tiers run on the sanitizer build, Valgrind on a slice, twin executions
PLANS["C17"]["thorough"] = _c17_quick_base + [hist("inv-d1r-san", "san", 1, reduced=1, family="inv", weight=3), fam("cpar-san", "san", "cpar", {}, weight=4, crash_props=["C17", "C16"]),
                                              _H3R_SAN,
                                              lp("S0q1-sanl1-default", "sanl1", "S0q1", "default", weight=1), lp("T-san-default", "san", "T", "default", weight=3, opts={"fam": "T", "cfg": "default", "tscale": 30}),
                                              hist("hist-d2r-valgrind", "prod", 2, reduced=1, weight=6, wrapper=VALGRIND, timeout=600),
                                              hist("hist-sw3r-valgrind", "prod", 3, weight=4, wrapper=VALGRIND, timeout=600, opts={"depth": 3, "reduced": 1, "sandwich": 1}),
                                              lp("S0q1-valgrind", "prodl1", "S0q1", "k1x", weight=4, wrapper=VALGRIND, timeout=600, range=[0, 1600]),
                                              hist("hist-d3r-prod", "prod", 3, reduced=1, weight=2), lp("Sbq-k1-prodl1", "prodl1", "Sbq", "k1", weight=3)] \
                           + [twin(hist("hist-d3r-prod", "prod", 3, reduced=1, weight=2)), twin(lp("Sbq-k1-prodl1", "prodl1", "Sbq", "k1", weight=3))] + _det_quick + [twin(r) for r in _det_quick] \
                           + [r for r in PLANS["C17"]["thorough"] if r["family"] == "rdr"]
for r in PLANS["C17"]["thorough"]:
    r["crash_props"] = sorted(set(r.get("crash_props", []) + ["C17"]))
PLANS["C17"]["bounds"] = dict(PLANS["C17"]["bounds"], thorough="adds on the sanitizer build: invalid calls after one operation, depth-3 reduced histories, all copy interleavings, cpar, S0q1 and T; Valgrind memcheck (uninitialised values fatal) on depth-2 / solve;op;solve histories over the reduced alphabet and on 1600 LPs x entry/pricing/scaling configurations; double execution of depth-3 reduced histories and Sbq x K<=1")
_dl("C17", thorough=3000)

# Valgrind memcheck is cheap on the tiny history items: a slice of it belongs in the quick tier (uninitialised reads are invisible to ASan)
PLANS["C17"]["quick"] = PLANS["C17"]["quick"] + [hist("hist-d2r-valgrind", "prod", 2, reduced=1, weight=2, wrapper=VALGRIND, timeout=600, crash_props=["C17"])]
PLANS["C17"]["thorough"] = PLANS["C17"]["thorough"] + [hist("hist-d2-valgrind", "prod", 2, weight=6, wrapper=VALGRIND, timeout=600, crash_props=["C17"]),
                                                      hist("inv-d0-valgrind", "prod", 0, family="inv", weight=2, wrapper=VALGRIND, timeout=600, crash_props=["C17"])]
_VG = dict(wrapper=VALGRIND, timeout=600, crash_props=["C17"])
_vg_more = [hist("inv-d1r-valgrind", "prod", 1, reduced=1, family="inv", weight=4, **_VG),
            fam("copy-s1-valgrind", "prod", "copy", {"steps": 1}, weight=4, **_VG),
            fam("cpar-valgrind", "prod", "cpar", {}, weight=4, **_VG),
            fam("wr-LP-k1-valgrind", "prod", "wr", {"fmt": "LP", "k": 1, "chain": 1}, weight=1, **_VG),
            fam("wr-MPS-k1-valgrind", "prod", "wr", {"fmt": "MPS", "k": 1, "chain": 1}, weight=1, **_VG),
            fam("rd-LP-k1-valgrind", "prod", "rd", {"fmt": "LP", "k": 1}, weight=1, **_VG),
            fam("rd-MPS-k1-valgrind", "prod", "rd", {"fmt": "MPS", "k": 1}, weight=1, **_VG),
            fam("rdr-mut-valgrind", "prodl1", "rdr", {"mode": "mut"}, weight=3, **_VG),
            fam("rdr-own-valgrind", "prodl1", "rdr", {"mode": "own", "via": "reader"}, weight=2, **_VG),
            fam("rdr-rec-mps-k3-valgrind", "prodl1", "rdr", {"mode": "rec", "fmt": "mps", "k": 3}, weight=3, **_VG),
            fam("basis-S1q-valgrind", "prod", "basis", {"fam": "S1q", "files": 1}, weight=2, **_VG),
            fam("lowp-SN1-valgrind", "prod", "lowp", {"fam": "SN1"}, weight=2, range=[0, 8000], **_VG),
            fam("factor-d3pm-u1-valgrind", "prod", "factor", {"dim": 3, "alpha": "pm", "upd": 1, "set": "012345"}, weight=2, range=[0, 20000], **_VG),
            fam("meta-S0q1-d1-valgrind", "prodl1", "meta", {"fam": "S0q1", "depth": 1}, weight=2, range=[0, 30000], **_VG)]
PLANS["C17"]["thorough"] = PLANS["C17"]["thorough"] + _vg_more

# histories shaped by a pattern: S = one of the 4 solves, A = any of the 67 operations
_SAA = hist("hist-SAA-prod", "prod", 3, weight=2, opts={"depth": 3, "reduced": 0, "pat": "SAA"})
_ASAS = hist("hist-ASAS-prod", "prod", 4, weight=8, opts={"depth": 4, "reduced": 0, "pat": "ASAS"})
for _pid in ("C05", "C06"):
    PLANS[_pid]["quick"] = PLANS[_pid]["quick"] + [_SAA]
    PLANS[_pid]["thorough"] = PLANS[_pid]["thorough"] + [_SAA, _ASAS]
    PLANS[_pid]["bounds"] = dict(PLANS[_pid]["bounds"], quick=PLANS[_pid]["bounds"]["quick"] + "; solve ; any ; any over the full alphabet (174k histories)", thorough=PLANS[_pid]["bounds"]["thorough"] + "; any ; solve ; any ; solve over the full alphabet (697k histories)")
_dl("C05", thorough=3000); _dl("C06", thorough=3000)

PLANS["C07"]["thorough"] = [hist("inv-d1-san", "san", 1, family="inv", weight=6), hist("inv-d1-prod", "prod", 1, family="inv", weight=1), hist("inv-d2r-prod", "prod", 2, reduced=1, family="inv", weight=3)]
_dl("C07", thorough=2400)

PLANS["C12"]["quick"] = PLANS["C12"]["quick"] + [lp("T-k1", "prod", "T", "k1", weight=3, opts={"fam": "T", "cfg": "k1", "tscale": 30})]

PLANS["C04"]["quick"] = PLANS["C04"]["quick"] + [fam("warm-allbases-Sbq", "prodl1", "basis", {"fam": "Sbq", "files": 0, "verify": 0, "warm": 1}, weight=2, crash_props=["C17", "C04"])]
PLANS["C04"]["rule"] = PLANS["C04"]["rule"].replace("must return the reference truth;", "must return the reference truth, and so must mpq_QSopt_primal / mpq_QSopt_dual after mpq_QSload_basis of the same basis;", 1)
_dl("C04", quick=900)

# C18 on the solve paths of the exact driver (allocation balance around build ; QSexact_solver ; free)
_LEAK_T = lp("T-san-leak", "san", "T", "default", weight=2, crash_props=["C17", "C18"], opts={"fam": "T", "cfg": "default", "tscale": 30, "leak": 1})
_LEAK_S = lp("S0q1-sanl1-leak", "sanl1", "S0q1", "default", weight=1, crash_props=["C17", "C18"], opts={"fam": "S0q1", "cfg": "default", "leak": 1})
PLANS["C18"]["quick"] = PLANS["C18"]["quick"] + [_LEAK_T, _LEAK_S]
PLANS["C18"]["thorough"] = PLANS["C18"]["thorough"] + [_LEAK_T, _LEAK_S, lp("Sbq-sanl1-leak", "sanl1", "Sbq", "default", weight=1, crash_props=["C17", "C18"], opts={"fam": "Sbq", "cfg": "default", "leak": 1})]
PLANS["C18"]["rule"] += "; family lp with leak=1: for every LP of T and S0q1 the allocated-byte counter before build ; QSexact_solver (dual and primal start) ; free and after it must agree (second round)"
PLANS["C18"]["evidence"] = {"states": sorted(set(PLANS["C18"]["evidence"]["states"] + ["instances"])), "transitions": sorted(set(PLANS["C18"]["evidence"]["transitions"] + ["leak_probes"])), "nontrivial": PLANS["C18"]["evidence"]["nontrivial"]}

# multiple partial pricing on the catalogue's wide LPs (candidate buckets of 100 entries), direct primal and dual simplex and the exact driver
_PART = [fam("meta-CAT-partial-primal-san", "san", "meta", {"fam": "CAT", "depth": 1, "partial": 2, "algo": "primal", "ncat": 14}, weight=2, crash_props=["C17", "C15"], timeout=900)
         ]   # the direct dual simplex with multiple partial pricing needs minutes per catalogue LP in rational arithmetic: left out
PLANS["C17"]["quick"] = PLANS["C17"]["quick"] + _PART
PLANS["C17"]["thorough"] = PLANS["C17"]["thorough"] + _PART
PLANS["C15"]["quick"] = PLANS["C15"]["quick"] + [fam("meta-CAT-partial-primal", "prod", "meta", {"fam": "CAT", "depth": 1, "partial": 1, "algo": "primal"}, weight=1, crash_props=["C17", "C15"], timeout=900)]
# B^-1 / tableau rows on the catalogue CP (3..5 rows, fixed and boxed columns)
PLANS["C13"]["quick"] = PLANS["C13"]["quick"] + [fac("binv-CP", "prod", {"fam": "CP"}, weight=1, family="binv")]
PLANS["C13"]["thorough"] = PLANS["C13"]["thorough"] + [fac("binv-CP", "prod", {"fam": "CP"}, weight=1, family="binv"), fac("binv-CP-san", "san", {"fam": "CP"}, weight=1, family="binv")]

# C18 quick: the copy interleavings are cut to their first 12000 items (all of them run in C16 quick and in C18 thorough)
PLANS["C18"]["quick"] = [dict(r, range=[0, 12000]) if r["id"] == "copy-s1-san" else r for r in PLANS["C18"]["quick"]]
_dl("C18", quick=900)

# C01: OPTIMAL claimed by the direct simplex started from every valid basis (singular ones, free columns non-basic) must be the truth
PLANS["C01"]["quick"] = PLANS["C01"]["quick"] + [fam("warm-allbases-S0q1", "prodl1", "basis", {"fam": "S0q1", "files": 0, "verify": 0, "warm": 1}, weight=2, crash_props=["C17", "C01"])]
PLANS["C01"]["thorough"] = PLANS["C01"]["thorough"] + [fam("warm-allbases-S0q1", "prodl1", "basis", {"fam": "S0q1", "files": 0, "verify": 0, "warm": 1}, weight=2, crash_props=["C17", "C01"]), fam("warm-allbases-Sbq", "prodl1", "basis", {"fam": "Sbq", "files": 0, "verify": 0, "warm": 1}, weight=2, crash_props=["C17", "C01"])]
PLANS["C01"]["rule"] += "; family basis warm=1: an OPTIMAL reported by mpq_QSopt_primal / mpq_QSopt_dual started from any valid basis must be the truth; option cont=1 of the sandwich histories: a history goes on after a step that left the queries in disagreement with the model, and the certificate oracle then judges the answers against the problem the caller built"
PLANS["C01"]["evidence"] = {"states": ["instances", "histories"], "transitions": ["executions", "api_transitions"], "nontrivial": ["instances_nontrivial", "histories"]}
