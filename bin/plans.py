"""Exploration plans per property: which harness families / option sets are
enumerated in the quick and thorough tiers, with which build variant."""

HARNESS_SOURCES = ["engine.c", "ref.c", "qsx.c", "lpfam.c", "h_inst.c", "h_hist.c", "families.c"]


def lp(id, variant, fam, cfg="default", weight=1, **kw):
    r = {"id": id, "variant": variant, "family": "lp", "opts": {"fam": fam, "cfg": cfg}, "weight": weight,
         "crash_props": ["C17", "C03"], "timeout": 300}
    r.update(kw)
    return r


LP_ASSUME = [
    "reference truth comes from the harness's Fourier-Motzkin solver; every verdict it gives is re-verified by substitution (point, multipliers, ray) before use",
    "infinite bounds are the library's sentinel +-mpq_ILL_MAXDOUBLE",
    "prodl1/sanl1 variants compile the library with -DQS_EXACT_MAX_ITER=1 (existing switch): the mpf ladder has one level instead of twelve; runs on 'prod'/'san' use the default ladder",
]

PLANS = {}

PLANS["C01"] = {
    "title": "OPTIMAL only with an exact optimality certificate",
    "rule": "instances are enumerated by mixed-radix index over the alphabets of the named family (lpfam.c); for each instance every configuration of the named set is executed; non-trivial = has a non-zero coefficient or needed simplex iterations / an exact fallback",
    "quick": [
        lp("S0k-default", "prodl1", "S0k", "default", weight=3),
        lp("S0q1-k1", "prodl1", "S0q1", "k1", weight=4),
        lp("T-k1", "prod", "T", "k1", weight=3, opts={"fam": "T", "cfg": "k1", "tscale": 30}),
        lp("Sillq-k1x", "prodl1", "Sillq", "k1x", weight=1),
        lp("S0mk-san", "sanl1", "S0mk", "default", weight=2),
    ],
    "thorough": [
        lp("S0-default", "prodl1", "S0", "default", weight=2),
        lp("S1-default", "prodl1", "S1", "default", weight=6),
        lp("S3-default", "prodl1", "S3", "default", weight=6),
        lp("SX-default", "prodl1", "SX", "default", weight=4),
        lp("S0c-k2", "prodl1", "S0c", "k2", weight=10),
        lp("T-k2", "prod", "T", "k2", weight=4),
        lp("S0c-full-512", "prodl1", "S0c", "full", weight=6, range=[0, 1200]),
        lp("Sill-k1", "prodl1", "Sill", "k1", weight=1),
        lp("S0mk-san-k1x", "sanl1", "S0mk", "k1x", weight=4),
    ],
    "bounds": {"quick": "S0 (n<=2,m<=2) x default config; S0c, T x all configurations within one deviation of the default (K<=1)",
               "thorough": "S1,S3,SX x default; S0c,T x K<=2; full configuration product on the first 1200 indices of S0c"},
    "assumptions": LP_ASSUME,
}
for pid, title in (("C02", "INFEASIBLE only with an exact Farkas certificate"),
                   ("C03", "status and value equal the mathematical truth"),
                   ("C04", "the answer is a function of the LP only")):
    PLANS[pid] = dict(PLANS["C01"])
    PLANS[pid]["title"] = title
NOT_YET = {}
