#!/usr/bin/env python3
"""Shared driver library: build /repo out of tree, run sharded harness workers,
aggregate results, write evidence, apply known findings, print verdict lines."""
import fcntl, glob, hashlib, json, os, re, shutil, subprocess, sys, tempfile, time

VERIF = os.path.dirname(os.path.dirname(os.path.abspath(__file__)))
REPO = os.environ.get("VERIF_REPO", "/repo")
CACHE = os.path.join(VERIF, ".cache")
NPROC = int(os.environ.get("VERIF_JOBS", str(os.cpu_count() or 4)))
GUARD = "QSOPT_EX_VERIF"

VARIANTS = {
    # name: (compiler, flags)
    "san": ("clang-14", "-O1 -g -fsanitize=address,undefined -fno-sanitize=pointer-overflow "
            "-fno-sanitize-recover=undefined -fno-omit-frame-pointer -DEG_LPNUM_MEMSLAB=0"),
    "prod": ("gcc", "-O2 -g"),
    "prodl1": ("gcc", "-O2 -g -DQS_EXACT_MAX_ITER=1"),
    "sanl1": ("clang-14", "-O1 -g -fsanitize=address,undefined -fno-sanitize=pointer-overflow "
              "-fno-sanitize-recover=undefined -fno-omit-frame-pointer -DEG_LPNUM_MEMSLAB=0 -DQS_EXACT_MAX_ITER=1"),
}
TYPES = (("dbl", "double"), ("mpq", "mpq_t"), ("mpf", "mpf_t"))
LIBS = "-lgmp -lz -lbz2 -lm -lpthread"

MIN_CONFIG_H = """#define DEBUG 1
#define HAVE_CLOCK 1
#define HAVE_ERRNO_H 1
#define HAVE_FLOAT_H 1
#define HAVE_GETRUSAGE 1
#define HAVE_INTTYPES_H 1
#define HAVE_LIBBZ2 1
#define HAVE_LIBPTHREAD 1
#define HAVE_LIBZ 1
#define HAVE_LIMITS_H 1
#define HAVE_MALLOC 1
#define HAVE_MATH_H 1
#define HAVE_POSIX_MEMALIGN 1
#define HAVE_REALLOC 1
#define HAVE_SETJMP_H 1
#define HAVE_SIGACTION 1
#define HAVE_SIGNAL 1
#define HAVE_SIGNAL_H 1
#define HAVE_SLEEP 1
#define HAVE_STDARG_H 1
#define HAVE_STDINT_H 1
#define HAVE_STDIO_H 1
#define HAVE_STDLIB_H 1
#define HAVE_STRDUP 1
#define HAVE_STRERROR 1
#define HAVE_STRINGS_H 1
#define HAVE_STRING_H 1
#define HAVE_SYS_PARAM_H 1
#define HAVE_SYS_RESOURCE_H 1
#define HAVE_SYS_STAT_H 1
#define HAVE_SYS_TIMES_H 1
#define HAVE_SYS_TIME_H 1
#define HAVE_SYS_TYPES_H 1
#define HAVE_SYS_UTSNAME_H 1
#define HAVE_TIMES 1
#define HAVE_TYPEOF 1
#define HAVE_UNAME 1
#define HAVE_UNISTD_H 1
#define HAVE_VPRINTF 1
#define PACKAGE_STRING "QSopt_ex verif"
#define PACKAGE_VERSION "verif"
#define RETSIGTYPE void
#define STDC_HEADERS 1
#define VERBOSE_LEVEL 100
"""


def log(*a):
    print("[vcheck]", *a, file=sys.stderr, flush=True)


def _mk_lists():
    """Parse the source lists out of Makefile.am (so new files are picked up)."""
    txt = open(os.path.join(REPO, "Makefile.am")).read()
    txt = txt.replace("\\\n", " ")
    out = {}
    for var in ("MAIN_SOURCE_FILES", "TEMPLATE_SOURCE_FILES", "TEMPLATE_PUBLIC_HEADER_FILES",
                "TEMPLATE_PRIVATE_HEADER_FILES"):
        m = re.search(r"^%s\s*=\s*(.*)$" % var, txt, re.M)
        out[var] = m.group(1).split() if m else []
    return out


def _is_generated(name):
    return re.search(r"_(dbl|mpq|mpf)\.[ch]$", name) is not None


def source_files():
    fs = []
    for f in sorted(glob.glob(os.path.join(REPO, "qsopt_ex", "*.[ch]"))):
        if not _is_generated(f):
            fs.append(f)
    for f in ("esolver/esolver.c", "Makefile.am", "config.h"):
        p = os.path.join(REPO, f)
        if os.path.exists(p):
            fs.append(p)
    return fs


def tree_hash(extra=""):
    h = hashlib.sha256()
    for f in source_files():
        h.update(f.encode())
        h.update(open(f, "rb").read())
    h.update(extra.encode())
    return h.hexdigest()[:20]


def _prune_cache(keep):
    try:
        ents = [os.path.join(CACHE, d) for d in os.listdir(CACHE) if d.startswith("lib-")]
    except FileNotFoundError:
        return
    ents.sort(key=lambda d: os.path.getmtime(d))
    # never remove what a concurrently running check may still be using: only entries untouched for 3 hours go
    while len(ents) > 10:
        d = ents.pop(0)
        if d != keep and time.time() - os.path.getmtime(d) > 3 * 3600:
            shutil.rmtree(d, ignore_errors=True)


def build_lib(variant):
    """Instantiate templates and compile the library from /repo's working tree.
    Returns the build directory (contains inc/*.h, libqs.a, esolver.o).  Result
    is cached by content hash of the sources + flags: any edit of /repo rebuilds."""
    cc, flags = VARIANTS[variant]
    flags = flags + " -D%s=1" % GUARD
    key = tree_hash(variant + cc + flags)
    os.makedirs(CACHE, exist_ok=True)
    d = os.path.join(CACHE, "lib-%s-%s" % (variant, key))
    lock = open(os.path.join(CACHE, "lock-%s" % variant), "w")
    fcntl.flock(lock, fcntl.LOCK_EX)
    try:
        if os.path.exists(os.path.join(d, "OK")):
            os.utime(d)
            return d
        shutil.rmtree(d, ignore_errors=True)
        t0 = time.time()
        inc = os.path.join(d, "inc")
        os.makedirs(inc)
        lists = _mk_lists()
        qs = os.path.join(REPO, "qsopt_ex")
        # plain files
        for f in glob.glob(os.path.join(qs, "*.[ch]")):
            if not _is_generated(f):
                shutil.copy(f, inc)
        cfg = os.path.join(REPO, "config.h")
        if os.path.exists(cfg):
            shutil.copy(cfg, inc)
        else:
            open(os.path.join(inc, "config.h"), "w").write(MIN_CONFIG_H)
        srcs = [os.path.basename(f) for f in lists["MAIN_SOURCE_FILES"]]
        tmpl = lists["TEMPLATE_SOURCE_FILES"] + lists["TEMPLATE_PUBLIC_HEADER_FILES"] + lists["TEMPLATE_PRIVATE_HEADER_FILES"]
        for f in tmpl:
            base = os.path.basename(f)
            text = open(os.path.join(qs, base)).read()
            stem, ext = os.path.splitext(base)
            for tn, ct in TYPES:
                o = "%s_%s%s" % (stem, tn, ext)
                open(os.path.join(inc, o), "w").write(
                    text.replace("EGLPNUM_TYPENAME", tn).replace("EGLPNUM_TYPE", ct))
                if ext == ".c":
                    srcs.append(o)
        shutil.copy(os.path.join(REPO, "esolver", "esolver.c"), os.path.join(inc, "esolver_main.c"))
        objd = os.path.join(d, "obj")
        os.makedirs(objd)
        cmds = []
        for s in srcs + ["esolver_main.c"]:
            o = os.path.join(objd, s[:-2] + ".o")
            cmds.append("%s %s -w -DHAVE_CONFIG_H -I%s -c %s -o %s" % (cc, flags, inc, os.path.join(inc, s), o))
        p = subprocess.run(["xargs", "-P", str(NPROC), "-I{}", "sh", "-c", "{}"], input="\n".join(cmds) + "\n",
                           text=True, capture_output=True)
        if p.returncode != 0:
            sys.stderr.write(p.stderr[-4000:])
            raise SystemExit("BUILD-FAILED variant=%s (the tree does not compile)" % variant)
        shutil.move(os.path.join(objd, "esolver_main.o"), os.path.join(d, "esolver.o"))
        objs = sorted(glob.glob(os.path.join(objd, "*.o")))
        subprocess.check_call(["ar", "rcs", os.path.join(d, "libqs.a")] + objs)
        shutil.rmtree(objd)
        for f in glob.glob(os.path.join(inc, "*.c")):
            os.unlink(f)
        open(os.path.join(d, "OK"), "w").write("%s %s\n" % (cc, flags))
        log("built lib variant=%s in %.1fs -> %s" % (variant, time.time() - t0, d))
        _prune_cache(d)
        return d
    finally:
        fcntl.flock(lock, fcntl.LOCK_UN)
        lock.close()


def build_harness(variant, name, sources, extra_flags=""):
    """Compile harness sources (paths relative to /verif/harness) against a lib variant.
    Returns path to the executable (inside the lib's cache dir, keyed by harness hash)."""
    libd = build_lib(variant)
    cc, flags = VARIANTS[variant]
    flags += " -D%s=1" % GUARD
    hd = os.path.join(VERIF, "harness")
    h = hashlib.sha256()
    for f in sorted(glob.glob(os.path.join(hd, "*.[ch]"))):
        h.update(open(f, "rb").read())
    h.update(extra_flags.encode())
    exe = os.path.join(libd, "%s-%s" % (name, h.hexdigest()[:12]))
    lock = open(os.path.join(CACHE, "lock-h-%s" % variant), "w")
    fcntl.flock(lock, fcntl.LOCK_EX)
    try:
        if os.path.exists(exe):
            return exe
        for old in glob.glob(os.path.join(libd, name + "-*")):
            if time.time() - os.path.getmtime(old) > 3 * 3600:      # an older harness may still be running in another check
                os.unlink(old)
        t0 = time.time()
        objs = []
        procs = []
        tmpd = tempfile.mkdtemp(prefix="hobj", dir=libd)
        for s in sources:
            o = os.path.join(tmpd, os.path.basename(s)[:-2] + ".o")
            objs.append(o)
            cmd = "%s %s %s -Wall -Wno-unused-function -DHAVE_CONFIG_H -DVARIANT_%s=1 -I%s -I%s -c %s -o %s" % (
                cc, flags, extra_flags, variant.upper(), os.path.join(libd, "inc"), hd, os.path.join(hd, s), o)
            procs.append((cmd, subprocess.Popen(cmd, shell=True, stderr=subprocess.PIPE, text=True)))
        bad = False
        for cmd, p in procs:
            err = p.communicate()[1]
            if p.returncode != 0:
                sys.stderr.write(cmd + "\n" + err[-6000:])
                bad = True
            elif err.strip() and os.environ.get("VERIF_WARN"):
                sys.stderr.write(err[-3000:])
        if bad:
            shutil.rmtree(tmpd, ignore_errors=True)
            raise SystemExit("HARNESS-BUILD-FAILED %s (harness does not compile against this tree)" % name)
        link = "%s %s -o %s.tmp %s %s %s" % (cc, flags, exe, " ".join(objs), os.path.join(libd, "libqs.a"), LIBS)
        subprocess.check_call(link, shell=True)
        os.rename(exe + ".tmp", exe)
        shutil.rmtree(tmpd, ignore_errors=True)
        log("built harness %s/%s in %.1fs" % (variant, name, time.time() - t0))
        return exe
    finally:
        fcntl.flock(lock, fcntl.LOCK_UN)
        lock.close()


def build_esolver(variant):
    libd = build_lib(variant)
    cc, flags = VARIANTS[variant]
    exe = os.path.join(libd, "esolver")
    if not os.path.exists(exe):
        subprocess.check_call("%s %s -o %s.tmp %s %s %s && mv %s.tmp %s" % (
            cc, flags, exe, os.path.join(libd, "esolver.o"), os.path.join(libd, "libqs.a"), LIBS, exe, exe), shell=True)
    return exe


SAN_ENV = {
    "ASAN_OPTIONS": "detect_leaks=1:abort_on_error=0:exitcode=86:allocator_may_return_null=1:detect_stack_use_after_return=0:handle_segv=1:handle_sigfpe=1:handle_abort=1",
    "UBSAN_OPTIONS": "print_stacktrace=1:halt_on_error=1:exitcode=87",
    "LSAN_OPTIONS": "exitcode=0:print_suppressions=0",
}
