/* Reference model and exact oracles (independent of the library under test). */
#include <stdlib.h>
#include <string.h>
#include <stdarg.h>
#include "ref.h"

static void *xcalloc (size_t n, size_t s)
{
	void *p = calloc (n ? n : 1, s ? s : 1);
	if (!p) { fprintf (stderr, "ref: out of memory\n"); abort (); }
	return p;
}
static char *xstrdup (const char *s) { return s ? strdup (s) : NULL; }

mpq_t *mpq_arr_new (int n)
{
	mpq_t *a = xcalloc ((size_t) n, sizeof (mpq_t));
	for (int i = 0; i < n; i++) mpq_init (a[i]);
	return a;
}
void mpq_arr_free (mpq_t * a, int n)
{
	if (!a) return;
	for (int i = 0; i < n; i++) mpq_clear (a[i]);
	free (a);
}

/* ------------------------------------------------------------------ SBuf */
void sb_init (SBuf * b) { b->cap = 256; b->len = 0; b->s = xcalloc (b->cap, 1); }
void sb_reserve (SBuf * b, size_t n) { if (n > b->cap) { b->cap = n; b->s = realloc (b->s, b->cap); } }
void sb_free (SBuf * b) { free (b->s); b->s = NULL; b->len = b->cap = 0; }
static void sb_need (SBuf * b, size_t extra)
{
	if (b->len + extra + 1 > b->cap) {
		while (b->len + extra + 1 > b->cap) b->cap *= 2;
		b->s = realloc (b->s, b->cap);
	}
}
void sb_printf (SBuf * b, const char *fmt, ...)
{
	va_list ap;
	va_start (ap, fmt);
	int k = vsnprintf (NULL, 0, fmt, ap);
	va_end (ap);
	sb_need (b, (size_t) k);
	va_start (ap, fmt);
	vsnprintf (b->s + b->len, (size_t) k + 1, fmt, ap);
	va_end (ap);
	b->len += (size_t) k;
}
void sb_mpq (SBuf * b, const mpq_t q)
{
	size_t k = mpz_sizeinbase (mpq_numref (q), 10) + mpz_sizeinbase (mpq_denref (q), 10) + 4;
	sb_need (b, k);
	mpq_get_str (b->s + b->len, 10, q);
	b->len += strlen (b->s + b->len);
}

char *q_str (const mpq_t q)
{
	size_t k = mpz_sizeinbase (mpq_numref (q), 10) + mpz_sizeinbase (mpq_denref (q), 10) + 4;
	char *s = malloc (k); mpq_get_str (s, 10, q); return s;
}
char *z_str (const mpz_t z)
{
	char *s = malloc (mpz_sizeinbase (z, 10) + 3); mpz_get_str (s, 10, z); return s;
}
/* ------------------------------------------------------------------ RefLP */
RefLP *ref_new (int objsense)
{
	RefLP *L = xcalloc (1, sizeof (RefLP));
	L->objsense = objsense;
	return L;
}
void ref_free (RefLP * L)
{
	if (!L) return;
	mpq_arr_free (L->A, L->capn * L->capm);
	mpq_arr_free (L->rhs, L->capm); mpq_arr_free (L->range, L->capm);
	mpq_arr_free (L->obj, L->capn); mpq_arr_free (L->lo, L->capn); mpq_arr_free (L->up, L->capn);
	for (int i = 0; i < L->n; i++) free (L->cname[i]);
	for (int i = 0; i < L->m; i++) free (L->rname[i]);
	free (L->cname); free (L->rname); free (L->sense); free (L->loinf); free (L->upinf); free (L->isint);
	free (L);
}
static void ref_grow (RefLP * L, int needn, int needm)
{
	int capn = L->capn, capm = L->capm;
	if (needn <= capn && needm <= capm) return;
	while (capn < needn) capn = capn ? capn * 2 : 4;
	while (capm < needm) capm = capm ? capm * 2 : 4;
	mpq_t *A = mpq_arr_new (capn * capm);
	for (int r = 0; r < L->m; r++)
		for (int c = 0; c < L->n; c++) mpq_swap (A[(size_t) r * capn + c], REF_A (L, r, c));
	mpq_arr_free (L->A, L->capn * L->capm);
	L->A = A;
#define GROWQ(f,oc,nc) do { mpq_t *t = mpq_arr_new (nc); for (int i = 0; i < (oc); i++) mpq_swap (t[i], L->f[i]); mpq_arr_free (L->f, oc); L->f = t; } while (0)
#define GROWC(f,oc,nc,T) do { T *t = xcalloc ((size_t)(nc), sizeof (T)); if (L->f) memcpy (t, L->f, (size_t)(oc) * sizeof (T)); free (L->f); L->f = t; } while (0)
	if (capm != L->capm) {
		GROWQ (rhs, L->capm, capm); GROWQ (range, L->capm, capm);
		GROWC (sense, L->capm, capm, char); GROWC (rname, L->capm, capm, char *);
	}
	if (capn != L->capn) {
		GROWQ (obj, L->capn, capn); GROWQ (lo, L->capn, capn); GROWQ (up, L->capn, capn);
		GROWC (loinf, L->capn, capn, char); GROWC (upinf, L->capn, capn, char); GROWC (isint, L->capn, capn, char);
		GROWC (cname, L->capn, capn, char *);
	}
	L->capn = capn; L->capm = capm;
}
RefLP *ref_clone (const RefLP * L)
{
	RefLP *C = ref_new (L->objsense);
	ref_grow (C, L->n, L->m);
	C->n = L->n; C->m = L->m;
	for (int r = 0; r < L->m; r++) {
		for (int c = 0; c < L->n; c++) mpq_set (REF_A (C, r, c), REF_A (L, r, c));
		mpq_set (C->rhs[r], L->rhs[r]); mpq_set (C->range[r], L->range[r]);
		C->sense[r] = L->sense[r]; C->rname[r] = xstrdup (L->rname[r]);
	}
	for (int c = 0; c < L->n; c++) {
		mpq_set (C->obj[c], L->obj[c]); mpq_set (C->lo[c], L->lo[c]); mpq_set (C->up[c], L->up[c]);
		C->loinf[c] = L->loinf[c]; C->upinf[c] = L->upinf[c]; C->isint[c] = L->isint[c];
		C->cname[c] = xstrdup (L->cname[c]);
	}
	return C;
}
int ref_add_col (RefLP * L, const mpq_t obj, const mpq_t lo, int loinf, const mpq_t up, int upinf, const char *name)
{
	ref_grow (L, L->n + 1, L->m);
	int c = L->n++;
	for (int r = 0; r < L->m; r++) mpq_set_ui (REF_A (L, r, c), 0, 1);
	mpq_set (L->obj[c], obj);
	if (loinf) mpq_set_ui (L->lo[c], 0, 1); else mpq_set (L->lo[c], lo);
	if (upinf) mpq_set_ui (L->up[c], 0, 1); else mpq_set (L->up[c], up);
	L->loinf[c] = (char) loinf; L->upinf[c] = (char) upinf; L->isint[c] = 0;
	L->cname[c] = xstrdup (name);
	return c;
}
int ref_add_row (RefLP * L, char sense, const mpq_t rhs, const mpq_t range, const char *name)
{
	/* rhs / range may point into L's own arrays, which ref_grow moves */
	mpq_t rh, rg; mpq_init (rh); mpq_init (rg); mpq_set (rh, rhs); if (range) mpq_set (rg, range);
	ref_grow (L, L->n, L->m + 1);
	int r = L->m++;
	for (int c = 0; c < L->n; c++) mpq_set_ui (REF_A (L, r, c), 0, 1);
	mpq_set (L->rhs[r], rh);
	if (sense == 'R' && range) mpq_set (L->range[r], rg); else mpq_set_ui (L->range[r], 0, 1);
	mpq_clear (rh); mpq_clear (rg);
	L->sense[r] = sense;
	L->rname[r] = xstrdup (name);
	return r;
}
void ref_del_rows (RefLP * L, const int *flags)
{
	int k = 0;
	for (int r = 0; r < L->m; r++) {
		if (flags[r]) { free (L->rname[r]); L->rname[r] = NULL; continue; }
		if (k != r) {
			for (int c = 0; c < L->n; c++) mpq_swap (REF_A (L, k, c), REF_A (L, r, c));
			mpq_swap (L->rhs[k], L->rhs[r]); mpq_swap (L->range[k], L->range[r]);
			L->sense[k] = L->sense[r]; L->rname[k] = L->rname[r]; L->rname[r] = NULL;
		}
		k++;
	}
	L->m = k;
}
void ref_del_cols (RefLP * L, const int *flags)
{
	int k = 0;
	for (int c = 0; c < L->n; c++) {
		if (flags[c]) { free (L->cname[c]); L->cname[c] = NULL; continue; }
		if (k != c) {
			for (int r = 0; r < L->m; r++) mpq_swap (REF_A (L, r, k), REF_A (L, r, c));
			mpq_swap (L->obj[k], L->obj[c]); mpq_swap (L->lo[k], L->lo[c]); mpq_swap (L->up[k], L->up[c]);
			L->loinf[k] = L->loinf[c]; L->upinf[k] = L->upinf[c]; L->isint[k] = L->isint[c];
			L->cname[k] = L->cname[c]; L->cname[c] = NULL;
		}
		k++;
	}
	L->n = k;
}
void ref_set_cname (RefLP * L, int c, const char *s) { free (L->cname[c]); L->cname[c] = xstrdup (s); }
void ref_set_rname (RefLP * L, int r, const char *s) { free (L->rname[r]); L->rname[r] = xstrdup (s); }
int ref_nnz (const RefLP * L)
{
	int k = 0;
	for (int r = 0; r < L->m; r++) for (int c = 0; c < L->n; c++) if (mpq_sgn (REF_A (L, r, c))) k++;
	return k;
}
int ref_wellformed (const RefLP * L)
{
	for (int c = 0; c < L->n; c++)
		if (!L->loinf[c] && !L->upinf[c] && mpq_cmp (L->lo[c], L->up[c]) > 0) return 0;
	for (int r = 0; r < L->m; r++)
		if (L->sense[r] == 'R' && mpq_sgn (L->range[r]) < 0) return 0;
	return 1;
}
static int streq0 (const char *a, const char *b) { if (!a || !b) return a == b; return strcmp (a, b) == 0; }
int ref_cmp (const RefLP * a, const RefLP * b, int what, char *why, size_t wl)
{
#define NE(...) do { snprintf (why, wl, __VA_ARGS__); return 1; } while (0)
	if (a->n != b->n) NE ("ncols %d vs %d", a->n, b->n);
	if (a->m != b->m) NE ("nrows %d vs %d", a->m, b->m);
	if (what & 1) {
		if (a->objsense != b->objsense) NE ("objsense %d vs %d", a->objsense, b->objsense);
		for (int c = 0; c < a->n; c++) {
			if (!mpq_equal (a->obj[c], b->obj[c])) NE ("obj[%d] differs", c);
			if (a->loinf[c] != b->loinf[c] || (!a->loinf[c] && !mpq_equal (a->lo[c], b->lo[c]))) NE ("lower[%d] differs", c);
			if (a->upinf[c] != b->upinf[c] || (!a->upinf[c] && !mpq_equal (a->up[c], b->up[c]))) NE ("upper[%d] differs", c);
		}
		for (int r = 0; r < a->m; r++) {
			if (a->sense[r] != b->sense[r]) NE ("sense[%d] %c vs %c", r, a->sense[r], b->sense[r]);
			if (!mpq_equal (a->rhs[r], b->rhs[r])) NE ("rhs[%d] differs", r);
			if (a->sense[r] == 'R' && !mpq_equal (a->range[r], b->range[r])) NE ("range[%d] differs", r);
			for (int c = 0; c < a->n; c++)
				if (!mpq_equal (REF_A (a, r, c), REF_A (b, r, c))) NE ("A[%d][%d] differs", r, c);
		}
	}
	if (what & 2) {
		for (int c = 0; c < a->n; c++) if (!streq0 (a->cname[c], b->cname[c])) NE ("colname[%d] '%s' vs '%s'", c, a->cname[c] ? a->cname[c] : "(null)", b->cname[c] ? b->cname[c] : "(null)");
		for (int r = 0; r < a->m; r++) if (!streq0 (a->rname[r], b->rname[r])) NE ("rowname[%d] '%s' vs '%s'", r, a->rname[r] ? a->rname[r] : "(null)", b->rname[r] ? b->rname[r] : "(null)");
	}
	if (what & 4)
		for (int c = 0; c < a->n; c++) if (!a->isint[c] != !b->isint[c]) NE ("intflag[%d] differs", c);
	return 0;
#undef NE
}
void ref_dump (SBuf * b, const RefLP * L, int with_names)
{
	sb_printf (b, "%s n=%d m=%d|", L->objsense == REF_MIN ? "min" : "max", L->n, L->m);
	for (int c = 0; c < L->n; c++) {
		sb_printf (b, "c%d:", c);
		if (with_names) sb_printf (b, "%s:", L->cname[c] ? L->cname[c] : "~");
		sb_mpq (b, L->obj[c]); sb_printf (b, "[");
		if (L->loinf[c]) sb_printf (b, "-inf"); else sb_mpq (b, L->lo[c]);
		sb_printf (b, ",");
		if (L->upinf[c]) sb_printf (b, "inf"); else sb_mpq (b, L->up[c]);
		sb_printf (b, "]%s|", L->isint[c] ? "i" : "");
	}
	for (int r = 0; r < L->m; r++) {
		sb_printf (b, "r%d:", r);
		if (with_names) sb_printf (b, "%s:", L->rname[r] ? L->rname[r] : "~");
		for (int c = 0; c < L->n; c++) { sb_mpq (b, REF_A (L, r, c)); sb_printf (b, " "); }
		sb_printf (b, "%c ", L->sense[r]); sb_mpq (b, L->rhs[r]);
		if (L->sense[r] == 'R') { sb_printf (b, " +"); sb_mpq (b, L->range[r]); }
		sb_printf (b, "|");
	}
}
void ref_print (FILE * f, const RefLP * L)
{
	SBuf b; sb_init (&b); ref_dump (&b, L, 1);
	for (char *p = b.s; *p; p++) if (*p == '|') *p = '\n';
	fputs (b.s, f); sb_free (&b);
}

/* ------------------------------------------------------------------ SF */
SF *sf_from_ref (const RefLP * L)
{
	SF *S = xcalloc (1, sizeof (SF));
	int n = L->n, m = L->m, N = n + m;
	S->n = n; S->m = m; S->N = N; S->objsense = L->objsense;
	S->A = mpq_arr_new (m * N); S->b = mpq_arr_new (m); S->c = mpq_arr_new (N);
	S->lo = mpq_arr_new (N); S->up = mpq_arr_new (N);
	S->loinf = xcalloc ((size_t) N, 1); S->upinf = xcalloc ((size_t) N, 1);
	for (int c = 0; c < n; c++) {
		mpq_set (S->c[c], L->obj[c]);
		S->loinf[c] = L->loinf[c]; S->upinf[c] = L->upinf[c];
		if (!L->loinf[c]) mpq_set (S->lo[c], L->lo[c]);
		if (!L->upinf[c]) mpq_set (S->up[c], L->up[c]);
	}
	for (int r = 0; r < m; r++) {
		for (int c = 0; c < n; c++) mpq_set (SF_A (S, r, c), REF_A (L, r, c));
		mpq_set (S->b[r], L->rhs[r]);
		int j = n + r;
		/* row semantics: L: a.x + s = rhs, s>=0 ; G: a.x - s = rhs, s>=0 ; E: a.x + s = rhs, s=0 ;
		 * R: a.x - s = rhs, 0<=s<=range */
		switch (L->sense[r]) {
		case 'L': mpq_set_si (SF_A (S, r, j), 1, 1); S->upinf[j] = 1; break;
		case 'G': mpq_set_si (SF_A (S, r, j), -1, 1); S->upinf[j] = 1; break;
		case 'E': mpq_set_si (SF_A (S, r, j), 1, 1); break;
		case 'R': mpq_set_si (SF_A (S, r, j), -1, 1); mpq_set (S->up[j], L->range[r]); break;
		default: mpq_set_si (SF_A (S, r, j), 1, 1); break;
		}
	}
	return S;
}
void sf_free (SF * S)
{
	if (!S) return;
	mpq_arr_free (S->A, S->m * S->N); mpq_arr_free (S->b, S->m); mpq_arr_free (S->c, S->N);
	mpq_arr_free (S->lo, S->N); mpq_arr_free (S->up, S->N); free (S->loinf); free (S->upinf); free (S);
}
void sf_fill_logicals (const SF * S, mpq_t * z)
{
	mpq_t t, u; mpq_init (t); mpq_init (u);
	for (int r = 0; r < S->m; r++) {
		mpq_set (t, S->b[r]);
		for (int c = 0; c < S->n; c++) { mpq_mul (u, SF_A (S, r, c), z[c]); mpq_sub (t, t, u); }
		mpq_div (z[S->n + r], t, SF_A (S, r, S->n + r));
	}
	mpq_clear (t); mpq_clear (u);
}

int oopt_check (const SF * S, mpq_t * z, mpq_t * pi, mpq_t * rc, const mpq_t val, char *why, size_t wl)
{
	int rv = 0;
	mpq_t t, u, d, pobj; mpq_init (t); mpq_init (u); mpq_init (d); mpq_init (pobj);
#define BAD(...) do { snprintf (why, wl, __VA_ARGS__); rv = 1; goto DONE; } while (0)
	for (int j = 0; j < S->N; j++) {
		if (!S->loinf[j] && mpq_cmp (z[j], S->lo[j]) < 0) BAD ("%s %d below lower bound", j < S->n ? "column" : "logical of row", j < S->n ? j : j - S->n);
		if (!S->upinf[j] && mpq_cmp (z[j], S->up[j]) > 0) BAD ("%s %d above upper bound", j < S->n ? "column" : "logical of row", j < S->n ? j : j - S->n);
	}
	for (int r = 0; r < S->m; r++) {
		mpq_set_ui (t, 0, 1);
		for (int j = 0; j < S->N; j++) { mpq_mul (u, SF_A (S, r, j), z[j]); mpq_add (t, t, u); }
		if (!mpq_equal (t, S->b[r])) BAD ("row %d: activity plus slack differs from rhs", r);
	}
	for (int j = 0; j < S->N; j++) {
		mpq_set (d, S->c[j]);
		for (int r = 0; r < S->m; r++) { mpq_mul (u, SF_A (S, r, j), pi[r]); mpq_sub (d, d, u); }
		if (rc && j < S->n && !mpq_equal (rc[j], d)) BAD ("reduced cost %d != c - A^T pi", j);
		int sg = mpq_sgn (d) * S->objsense;
		if (sg > 0) {
			if (S->loinf[j] || !mpq_equal (z[j], S->lo[j]))
				BAD ("dual sign: %s %d has %s reduced cost but is not at a finite lower bound", j < S->n ? "column" : "row", j < S->n ? j : j - S->n, S->objsense > 0 ? "positive" : "negative");
		} else if (sg < 0) {
			if (S->upinf[j] || !mpq_equal (z[j], S->up[j]))
				BAD ("dual sign: %s %d has %s reduced cost but is not at a finite upper bound", j < S->n ? "column" : "row", j < S->n ? j : j - S->n, S->objsense > 0 ? "negative" : "positive");
		}
		mpq_mul (u, S->c[j], z[j]); mpq_add (pobj, pobj, u);
	}
	if (!mpq_equal (pobj, val)) BAD ("objective value differs from c.x");
	/* dual objective = pi.b + sum d_j z_j equals pobj by the identities above; recompute anyway */
	mpq_set_ui (t, 0, 1);
	for (int r = 0; r < S->m; r++) { mpq_mul (u, pi[r], S->b[r]); mpq_add (t, t, u); }
	for (int j = 0; j < S->N; j++) {
		mpq_set (d, S->c[j]);
		for (int r = 0; r < S->m; r++) { mpq_mul (u, SF_A (S, r, j), pi[r]); mpq_sub (d, d, u); }
		if (mpq_sgn (d)) { mpq_mul (u, d, z[j]); mpq_add (t, t, u); }
	}
	if (!mpq_equal (t, val)) BAD ("dual objective differs from reported value");
DONE:
	mpq_clear (t); mpq_clear (u); mpq_clear (d); mpq_clear (pobj);
	return rv;
#undef BAD
}

static int farkas_one (const SF * S, mpq_t * y, int sgn, char *why, size_t wl)
{
	int rv = 0;
	mpq_t g, u, dobj; mpq_init (g); mpq_init (u); mpq_init (dobj);
	for (int r = 0; r < S->m; r++) { mpq_mul (u, y[r], S->b[r]); if (sgn < 0) mpq_neg (u, u); mpq_add (dobj, dobj, u); }
	for (int j = 0; j < S->N && !rv; j++) {
		mpq_set_ui (g, 0, 1);
		for (int r = 0; r < S->m; r++) { mpq_mul (u, SF_A (S, r, j), y[r]); mpq_sub (g, g, u); }
		if (sgn < 0) mpq_neg (g, g);
		/* 0 = y.b + sum g_j z_j >= y.b + sum_{g>0} g lo + sum_{g<0} g up */
		if (mpq_sgn (g) > 0) {
			if (S->loinf[j]) { snprintf (why, wl, "multipliers lean on infinite lower bound of %s %d", j < S->n ? "column" : "row", j < S->n ? j : j - S->n); rv = 1; }
			else { mpq_mul (u, g, S->lo[j]); mpq_add (dobj, dobj, u); }
		} else if (mpq_sgn (g) < 0) {
			if (S->upinf[j]) { snprintf (why, wl, "multipliers lean on infinite upper bound of %s %d", j < S->n ? "column" : "row", j < S->n ? j : j - S->n); rv = 1; }
			else { mpq_mul (u, g, S->up[j]); mpq_add (dobj, dobj, u); }
		}
	}
	if (!rv && mpq_sgn (dobj) <= 0) { snprintf (why, wl, "combined inequality is satisfiable (margin not positive)"); rv = 1; }
	mpq_clear (g); mpq_clear (u); mpq_clear (dobj);
	return rv;
}
int ofarkas_check (const SF * S, mpq_t * y, int *sign, char *why, size_t wl)
{
	char w2[200];
	if (farkas_one (S, y, 1, why, wl) == 0) { if (sign) *sign = 1; return 0; }
	if (farkas_one (S, y, -1, w2, sizeof w2) == 0) { if (sign) *sign = -1; return 0; }
	return 1;
}

/* ------------------------------------------------------------------ Gauss */
int gauss_solve (mpq_t * M, mpq_t * r, int k, mpq_t * x)
{
	mpq_t f, t; mpq_init (f); mpq_init (t);
	int rv = 0;
	for (int col = 0; col < k; col++) {
		int p = -1;
		for (int i = col; i < k; i++) if (mpq_sgn (M[(size_t) i * k + col])) { p = i; break; }
		if (p < 0) { rv = 1; goto DONE; }
		if (p != col) { for (int j = 0; j < k; j++) mpq_swap (M[(size_t) p * k + j], M[(size_t) col * k + j]); mpq_swap (r[p], r[col]); }
		for (int i = col + 1; i < k; i++) {
			if (!mpq_sgn (M[(size_t) i * k + col])) continue;
			mpq_div (f, M[(size_t) i * k + col], M[(size_t) col * k + col]);
			for (int j = col; j < k; j++) { mpq_mul (t, f, M[(size_t) col * k + j]); mpq_sub (M[(size_t) i * k + j], M[(size_t) i * k + j], t); }
			mpq_mul (t, f, r[col]); mpq_sub (r[i], r[i], t);
		}
	}
	for (int i = k - 1; i >= 0; i--) {
		mpq_set (t, r[i]);
		for (int j = i + 1; j < k; j++) { mpq_mul (f, M[(size_t) i * k + j], x[j]); mpq_sub (t, t, f); }
		mpq_div (x[i], t, M[(size_t) i * k + i]);
	}
DONE:
	mpq_clear (f); mpq_clear (t);
	return rv;
}

/* ------------------------------------------------------------------ O-BASIS */
void obasis_free (BasisSol * B, const SF * S)
{
	if (!B) return;
	mpq_arr_free (B->z, S->N); mpq_arr_free (B->pi, S->m); mpq_arr_free (B->d, S->N);
	mpq_clear (B->pobj); mpq_clear (B->dobj); free (B);
}
BasisSol *obasis_solve (const SF * S, const char *cstat, const char *rstat)
{
	int N = S->N, m = S->m, n = S->n;
	BasisSol *B = xcalloc (1, sizeof (BasisSol));
	B->z = mpq_arr_new (N); B->pi = mpq_arr_new (m); B->d = mpq_arr_new (N);
	mpq_init (B->pobj); mpq_init (B->dobj);
	int *bidx = xcalloc ((size_t) m + 1, sizeof (int)), nb = 0;
	char *st = xcalloc ((size_t) N + 1, 1);
	B->valid = 1;
	for (int j = 0; j < N; j++) {
		char s = j < n ? cstat[j] : rstat[j - n];
		st[j] = s;
		if (s == '1') { if (nb < m) bidx[nb] = j; nb++; }
		else if (s == '0') { if (S->loinf[j]) B->valid = 0; else mpq_set (B->z[j], S->lo[j]); }
		else if (s == '2') { if (S->upinf[j]) B->valid = 0; else mpq_set (B->z[j], S->up[j]); }
		else if (s == '3' && j < n) { if (!S->loinf[j] || !S->upinf[j]) B->valid = 0; mpq_set_ui (B->z[j], 0, 1); }
		else B->valid = 0;
	}
	if (nb != m) B->valid = 0;
	if (!B->valid) goto DONE;
	if (m > 0) {
		mpq_t *M = mpq_arr_new (m * m), *r = mpq_arr_new (m), *x = mpq_arr_new (m);
		mpq_t u; mpq_init (u);
		for (int i = 0; i < m; i++) {
			mpq_set (r[i], S->b[i]);
			for (int j = 0; j < N; j++) if (st[j] != '1' && mpq_sgn (B->z[j])) { mpq_mul (u, SF_A (S, i, j), B->z[j]); mpq_sub (r[i], r[i], u); }
			for (int k = 0; k < m; k++) mpq_set (M[(size_t) i * m + k], SF_A (S, i, bidx[k]));
		}
		if (gauss_solve (M, r, m, x)) B->singular = 1;
		else {
			for (int k = 0; k < m; k++) mpq_set (B->z[bidx[k]], x[k]);
			/* B^T pi = c_B */
			for (int k = 0; k < m; k++) {
				mpq_set (r[k], S->c[bidx[k]]);
				for (int i = 0; i < m; i++) mpq_set (M[(size_t) k * m + i], SF_A (S, i, bidx[k]));
			}
			if (gauss_solve (M, r, m, x)) B->singular = 1;
			else for (int i = 0; i < m; i++) mpq_set (B->pi[i], x[i]);
		}
		mpq_clear (u);
		mpq_arr_free (M, m * m); mpq_arr_free (r, m); mpq_arr_free (x, m);
	}
	if (B->singular) goto DONE;
	{
		mpq_t u; mpq_init (u);
		B->pfeas = 1; B->dfeas = 1;
		for (int j = 0; j < N; j++) {
			if (!S->loinf[j] && mpq_cmp (B->z[j], S->lo[j]) < 0) B->pfeas = 0;
			if (!S->upinf[j] && mpq_cmp (B->z[j], S->up[j]) > 0) B->pfeas = 0;
			mpq_set (B->d[j], S->c[j]);
			for (int i = 0; i < m; i++) { mpq_mul (u, SF_A (S, i, j), B->pi[i]); mpq_sub (B->d[j], B->d[j], u); }
			mpq_mul (u, S->c[j], B->z[j]); mpq_add (B->pobj, B->pobj, u);
			if (st[j] == '1') continue;
			int sg = mpq_sgn (B->d[j]) * S->objsense;
			int fixed = !S->loinf[j] && !S->upinf[j] && mpq_equal (S->lo[j], S->up[j]);
			if (fixed) continue;
			if (st[j] == '0' && sg < 0) B->dfeas = 0;
			if (st[j] == '2' && sg > 0) B->dfeas = 0;
			if (st[j] == '3' && sg != 0) B->dfeas = 0;
		}
		mpq_set (B->dobj, B->pobj);
		mpq_clear (u);
	}
DONE:
	free (bidx); free (st);
	return B;
}

/* ------------------------------------------------------------------ Fourier-Motzkin */
typedef struct { mpq_t *a; mpq_t b; mpq_t *mu; } Ineq;
typedef struct { Ineq *v; int cnt, cap; int nv, norig; } ISet;
#define FM_CAP 6000

static void iset_init (ISet * S, int nv, int norig) { S->v = NULL; S->cnt = S->cap = 0; S->nv = nv; S->norig = norig; }
static Ineq *iset_push (ISet * S)
{
	if (S->cnt == S->cap) { S->cap = S->cap ? S->cap * 2 : 16; S->v = realloc (S->v, (size_t) S->cap * sizeof (Ineq)); }
	Ineq *q = &S->v[S->cnt++];
	q->a = mpq_arr_new (S->nv); q->mu = mpq_arr_new (S->norig); mpq_init (q->b);
	return q;
}
static void ineq_clear (ISet * S, Ineq * q) { mpq_arr_free (q->a, S->nv); mpq_arr_free (q->mu, S->norig); mpq_clear (q->b); }
static void iset_free (ISet * S) { for (int i = 0; i < S->cnt; i++) ineq_clear (S, &S->v[i]); free (S->v); S->v = NULL; S->cnt = S->cap = 0; }
static void iset_pop (ISet * S) { ineq_clear (S, &S->v[--S->cnt]); }
static void iset_copy_into (ISet * D, const ISet * S, const Ineq * q)
{
	Ineq *d = iset_push (D);
	for (int j = 0; j < S->nv; j++) mpq_set (d->a[j], q->a[j]);
	for (int j = 0; j < S->norig; j++) mpq_set (d->mu[j], q->mu[j]);
	mpq_set (d->b, q->b);
}
/* normalise last pushed inequality: scale so first nonzero coefficient is +-1; returns 1 if it is a
 * trivially true zero row (removed), 2 if it is a contradiction (kept), 0 otherwise; removes duplicates */
static int iset_norm_last (ISet * S)
{
	Ineq *q = &S->v[S->cnt - 1];
	int f = -1;
	for (int j = 0; j < S->nv; j++) if (mpq_sgn (q->a[j])) { f = j; break; }
	if (f < 0) {
		if (mpq_sgn (q->b) >= 0) { iset_pop (S); return 1; }
		return 2;
	}
	mpq_t s; mpq_init (s); mpq_abs (s, q->a[f]);
	if (mpq_cmp_ui (s, 1, 1) != 0) {
		for (int j = 0; j < S->nv; j++) if (mpq_sgn (q->a[j])) mpq_div (q->a[j], q->a[j], s);
		for (int j = 0; j < S->norig; j++) if (mpq_sgn (q->mu[j])) mpq_div (q->mu[j], q->mu[j], s);
		mpq_div (q->b, q->b, s);
	}
	mpq_clear (s);
	for (int i = 0; i < S->cnt - 1; i++) {
		Ineq *o = &S->v[i];
		int same = 1;
		for (int j = 0; j < S->nv; j++) if (!mpq_equal (o->a[j], q->a[j])) { same = 0; break; }
		if (!same) continue;
		if (mpq_cmp (q->b, o->b) < 0) { /* new one is tighter: replace */
			mpq_swap (o->b, q->b);
			for (int j = 0; j < S->norig; j++) mpq_swap (o->mu[j], q->mu[j]);
		}
		iset_pop (S);
		return 1;
	}
	return 0;
}
/* eliminate variable var from S into D.  returns 0 ok, 2 contradiction found (last of D), 3 cap */
static int fm_eliminate (const ISet * S, int var, ISet * D)
{
	iset_init (D, S->nv, S->norig);
	mpq_t fp, fn, t; mpq_init (fp); mpq_init (fn); mpq_init (t);
	int rv = 0;
	for (int i = 0; i < S->cnt && !rv; i++)
		if (!mpq_sgn (S->v[i].a[var])) { iset_copy_into (D, S, &S->v[i]); if (iset_norm_last (D) == 2) rv = 2; }
	for (int i = 0; i < S->cnt && !rv; i++) {
		if (mpq_sgn (S->v[i].a[var]) <= 0) continue;
		for (int k = 0; k < S->cnt && !rv; k++) {
			if (mpq_sgn (S->v[k].a[var]) >= 0) continue;
			const Ineq *P = &S->v[i], *Q = &S->v[k];
			/* (1/P.a) * P + (1/-Q.a) * Q */
			mpq_inv (fp, P->a[var]); mpq_inv (fn, Q->a[var]); mpq_neg (fn, fn);
			Ineq *d = iset_push (D);
			for (int j = 0; j < S->nv; j++) {
				if (j == var) continue;
				mpq_mul (d->a[j], fp, P->a[j]); mpq_mul (t, fn, Q->a[j]); mpq_add (d->a[j], d->a[j], t);
			}
			for (int j = 0; j < S->norig; j++) {
				if (!mpq_sgn (P->mu[j]) && !mpq_sgn (Q->mu[j])) continue;
				mpq_mul (d->mu[j], fp, P->mu[j]); mpq_mul (t, fn, Q->mu[j]); mpq_add (d->mu[j], d->mu[j], t);
			}
			mpq_mul (d->b, fp, P->b); mpq_mul (t, fn, Q->b); mpq_add (d->b, d->b, t);
			if (iset_norm_last (D) == 2) rv = 2;
			else if (D->cnt > FM_CAP) rv = 3;
		}
	}
	mpq_clear (fp); mpq_clear (fn); mpq_clear (t);
	return rv;
}
static int fm_pick (const ISet * S, const char *done, int nelim)
{
	long best = -1; int bv = -1;
	for (int v = 0; v < nelim; v++) {
		if (done[v]) continue;
		long p = 0, q = 0;
		for (int i = 0; i < S->cnt; i++) { int s = mpq_sgn (S->v[i].a[v]); if (s > 0) p++; else if (s < 0) q++; }
		long cost = p * q - p - q;
		if (bv < 0 || cost < best) { best = cost; bv = v; }
	}
	return bv;
}
/* Result of a projection run */
typedef struct {
	int status;            /* 0 projected ok, 2 contradiction, 3 gave up */
	ISet *lev;             /* lev[k] = set before eliminating ord[k], lev[nelim] = final */
	int *ord; int nelim;
	long peak;
} FMRun;
static void fmrun_free (FMRun * R)
{
	if (!R->lev) return;
	for (int k = 0; k <= R->nelim; k++) iset_free (&R->lev[k]);
	free (R->lev); free (R->ord); R->lev = NULL;
}
/* takes ownership of S0 */
static void fm_project (ISet * S0, int nelim, FMRun * R)
{
	R->lev = xcalloc ((size_t) nelim + 1, sizeof (ISet)); R->ord = xcalloc ((size_t) nelim + 1, sizeof (int));
	R->nelim = nelim; R->status = 0; R->peak = S0->cnt;
	R->lev[0] = *S0;
	for (int k = 1; k <= nelim; k++) iset_init (&R->lev[k], S0->nv, S0->norig);
	char *done = xcalloc ((size_t) nelim + 1, 1);
	/* contradiction already among the originals? */
	for (int i = 0; i < R->lev[0].cnt; i++) {
		int z = 1; for (int j = 0; j < S0->nv; j++) if (mpq_sgn (R->lev[0].v[i].a[j])) z = 0;
		if (z && mpq_sgn (R->lev[0].v[i].b) < 0) {
			/* move to the end of the final level for uniform handling */
			for (int k = 0; k < nelim; k++) R->ord[k] = k;
			iset_copy_into (&R->lev[nelim], &R->lev[0], &R->lev[0].v[i]);
			R->status = 2; free (done); return;
		}
	}
	for (int k = 0; k < nelim; k++) {
		int v = fm_pick (&R->lev[k], done, nelim);
		done[v] = 1; R->ord[k] = v;
		ISet D; int rv = fm_eliminate (&R->lev[k], v, &D);
		iset_free (&R->lev[k + 1]);
		R->lev[k + 1] = D;
		if (D.cnt > R->peak) R->peak = D.cnt;
		if (rv == 2) {
			/* contradiction is the last element of D; expose it as last of final level */
			if (k + 1 != nelim) { iset_copy_into (&R->lev[nelim], &D, &D.v[D.cnt - 1]); }
			for (int kk = k + 1; kk < nelim; kk++) { int u = 0; while (done[u]) u++; done[u] = 1; R->ord[kk] = u; }
			R->status = 2; break;
		}
		if (rv == 3) { R->status = 3; break; }
	}
	free (done);
}
/* back-substitution: val[] has fixed entries for variables >= nelim already set */
static int fm_backsub (const FMRun * R, mpq_t * val)
{
	mpq_t lo, up, t, u; mpq_init (lo); mpq_init (up); mpq_init (t); mpq_init (u);
	int rv = 0;
	for (int k = R->nelim - 1; k >= 0 && !rv; k--) {
		int var = R->ord[k], haslo = 0, hasup = 0;
		const ISet *S = &R->lev[k];
		for (int i = 0; i < S->cnt; i++) {
			const Ineq *q = &S->v[i];
			int s = mpq_sgn (q->a[var]);
			if (!s) continue;
			mpq_set (t, q->b);
			for (int j = 0; j < S->nv; j++) if (j != var && mpq_sgn (q->a[j])) { mpq_mul (u, q->a[j], val[j]); mpq_sub (t, t, u); }
			mpq_div (t, t, q->a[var]);
			if (s > 0) { if (!hasup || mpq_cmp (t, up) < 0) mpq_set (up, t); hasup = 1; }
			else { if (!haslo || mpq_cmp (t, lo) > 0) mpq_set (lo, t); haslo = 1; }
		}
		if (haslo && hasup && mpq_cmp (lo, up) > 0) rv = 1;
		if (haslo) mpq_set (val[var], lo); else if (hasup) mpq_set (val[var], up); else mpq_set_ui (val[var], 0, 1);
	}
	mpq_clear (lo); mpq_clear (up); mpq_clear (t); mpq_clear (u);
	return rv;
}

/* Build the inequality system of RefLP over n variables (+ extra variables, zero coefficients).
 * hom: 1 = homogeneous (recession cone). */
static void build_system (const RefLP * L, ISet * S, int nv, int extra_orig, int hom)
{
	int n = L->n, m = L->m;
	int norig = 2 * m + 2 * n + extra_orig;
	iset_init (S, nv, norig);
	int id = 0;
	mpq_t t; mpq_init (t);
	for (int r = 0; r < m; r++) {
		char s = L->sense[r];
		/* upper side: a.x <= U */
		if (s == 'L' || s == 'E' || s == 'R') {
			Ineq *q = iset_push (S);
			for (int c = 0; c < n; c++) mpq_set (q->a[c], REF_A (L, r, c));
			if (!hom) { mpq_set (q->b, L->rhs[r]); if (s == 'R') mpq_add (q->b, q->b, L->range[r]); }
			mpq_set_ui (q->mu[id], 1, 1);
		}
		id++;
		if (s == 'G' || s == 'E' || s == 'R') {
			Ineq *q = iset_push (S);
			for (int c = 0; c < n; c++) mpq_neg (q->a[c], REF_A (L, r, c));
			if (!hom) mpq_neg (q->b, L->rhs[r]);
			mpq_set_ui (q->mu[id], 1, 1);
		}
		id++;
	}
	for (int c = 0; c < n; c++) {
		if (!L->upinf[c]) { Ineq *q = iset_push (S); mpq_set_si (q->a[c], 1, 1); if (!hom) mpq_set (q->b, L->up[c]); mpq_set_ui (q->mu[id], 1, 1); }
		id++;
		if (!L->loinf[c]) { Ineq *q = iset_push (S); mpq_set_si (q->a[c], -1, 1); if (!hom) mpq_neg (q->b, L->lo[c]); mpq_set_ui (q->mu[id], 1, 1); }
		id++;
	}
	mpq_clear (t);
}
/* recompute sum mu_k * orig_k and compare with (a,b) */
static int verify_combo (const ISet * orig, const Ineq * q)
{
	int nv = orig->nv, ok = 1;
	mpq_t *a = mpq_arr_new (nv); mpq_t b, t; mpq_init (b); mpq_init (t);
	for (int i = 0; i < orig->cnt; i++) {
		/* original i carries a unit multiplier on exactly one id */
		int id = -1; for (int j = 0; j < orig->norig; j++) if (mpq_sgn (orig->v[i].mu[j])) { id = j; break; }
		if (id < 0) { ok = 0; break; }
		if (mpq_sgn (q->mu[id]) < 0) { ok = 0; break; }
		if (!mpq_sgn (q->mu[id])) continue;
		for (int j = 0; j < nv; j++) { mpq_mul (t, q->mu[id], orig->v[i].a[j]); mpq_add (a[j], a[j], t); }
		mpq_mul (t, q->mu[id], orig->v[i].b); mpq_add (b, b, t);
	}
	for (int j = 0; j < nv && ok; j++) if (!mpq_equal (a[j], q->a[j])) ok = 0;
	if (ok && !mpq_equal (b, q->b)) ok = 0;
	mpq_arr_free (a, nv); mpq_clear (b); mpq_clear (t);
	return ok;
}
static ISet iset_clone (const ISet * S)
{
	ISet D; iset_init (&D, S->nv, S->norig);
	for (int i = 0; i < S->cnt; i++) iset_copy_into (&D, S, &S->v[i]);
	return D;
}

Truth *truth_new (int n)
{
	Truth *T = xcalloc (1, sizeof (Truth));
	T->n = n; mpq_init (T->val); T->x = mpq_arr_new (n); T->ray = mpq_arr_new (n);
	return T;
}
void truth_free (Truth * T) { if (!T) return; mpq_clear (T->val); mpq_arr_free (T->x, T->n); mpq_arr_free (T->ray, T->n); free (T); }

int ref_point_feasible (const RefLP * L, mpq_t * x)
{
	mpq_t t, u; mpq_init (t); mpq_init (u);
	int ok = 1;
	for (int c = 0; c < L->n && ok; c++) {
		if (!L->loinf[c] && mpq_cmp (x[c], L->lo[c]) < 0) ok = 0;
		if (!L->upinf[c] && mpq_cmp (x[c], L->up[c]) > 0) ok = 0;
	}
	for (int r = 0; r < L->m && ok; r++) {
		mpq_set_ui (t, 0, 1);
		for (int c = 0; c < L->n; c++) { mpq_mul (u, REF_A (L, r, c), x[c]); mpq_add (t, t, u); }
		int cl = mpq_cmp (t, L->rhs[r]);
		switch (L->sense[r]) {
		case 'L': if (cl > 0) ok = 0; break;
		case 'G': if (cl < 0) ok = 0; break;
		case 'E': if (cl != 0) ok = 0; break;
		case 'R': if (cl < 0) ok = 0; mpq_add (u, L->rhs[r], L->range[r]); if (mpq_cmp (t, u) > 0) ok = 0; break;
		}
	}
	mpq_clear (t); mpq_clear (u);
	return ok;
}
static int ray_ok (const RefLP * L, mpq_t * d)
{
	/* d in recession cone and strictly improving */
	mpq_t t, u; mpq_init (t); mpq_init (u);
	int ok = 1;
	for (int c = 0; c < L->n && ok; c++) {
		if (!L->loinf[c] && mpq_sgn (d[c]) < 0) ok = 0;
		if (!L->upinf[c] && mpq_sgn (d[c]) > 0) ok = 0;
	}
	for (int r = 0; r < L->m && ok; r++) {
		mpq_set_ui (t, 0, 1);
		for (int c = 0; c < L->n; c++) { mpq_mul (u, REF_A (L, r, c), d[c]); mpq_add (t, t, u); }
		int s = mpq_sgn (t);
		switch (L->sense[r]) {
		case 'L': if (s > 0) ok = 0; break;
		case 'G': if (s < 0) ok = 0; break;
		default: if (s != 0) ok = 0; break;
		}
	}
	mpq_set_ui (t, 0, 1);
	for (int c = 0; c < L->n; c++) { mpq_mul (u, L->obj[c], d[c]); mpq_add (t, t, u); }
	if (mpq_sgn (t) * L->objsense >= 0) ok = 0;
	mpq_clear (t); mpq_clear (u);
	return ok;
}


Truth *ref_solve (const RefLP * L)
{
	int n = L->n;
	Truth *T = truth_new (n);
	ISet S0; FMRun R = { 0 };
	/* 1. feasibility */
	build_system (L, &S0, n, 0, 0);
	ISet orig = iset_clone (&S0);
	fm_project (&S0, n, &R);
	T->peak_ineqs = R.peak;
	if (R.status == 3) { T->gaveup = 1; goto OUT; }
	if (R.status == 2) {
		const ISet *F = &R.lev[n];
		const Ineq *q = &F->v[F->cnt - 1];
		int allz = 1; for (int j = 0; j < n; j++) if (mpq_sgn (q->a[j])) allz = 0;
		if (!allz || mpq_sgn (q->b) >= 0 || !verify_combo (&orig, q)) T->selfcheck_failed = 1;
		else T->status = TRUTH_INFEASIBLE;
		goto OUT;
	}
	if (fm_backsub (&R, T->x) || !ref_point_feasible (L, T->x)) { T->selfcheck_failed = 1; goto OUT; }
	fmrun_free (&R);
	/* 2. project onto z = s*c.x (minimise z) */
	{
		ISet S1; build_system (L, &S1, n + 1, 2, 0);
		int id0 = 2 * L->m + 2 * n;
		Ineq *q = iset_push (&S1);          /* z - s c.x <= 0 */
		for (int c = 0; c < n; c++) { mpq_set (q->a[c], L->obj[c]); if (L->objsense == REF_MIN) mpq_neg (q->a[c], q->a[c]); }
		mpq_set_si (q->a[n], 1, 1); mpq_set_ui (q->mu[id0], 1, 1);
		q = iset_push (&S1);                /* s c.x - z <= 0 */
		for (int c = 0; c < n; c++) { mpq_set (q->a[c], L->obj[c]); if (L->objsense != REF_MIN) mpq_neg (q->a[c], q->a[c]); }
		mpq_set_si (q->a[n], -1, 1); mpq_set_ui (q->mu[id0 + 1], 1, 1);
		ISet orig1 = iset_clone (&S1);
		FMRun R1 = { 0 };
		fm_project (&S1, n, &R1);
		if (R1.peak > T->peak_ineqs) T->peak_ineqs = R1.peak;
		if (R1.status == 3) { T->gaveup = 1; fmrun_free (&R1); iset_free (&orig1); goto OUT; }
		if (R1.status == 2) { T->selfcheck_failed = 1; fmrun_free (&R1); iset_free (&orig1); goto OUT; }
		const ISet *F = &R1.lev[n];
		int best = -1; mpq_t lb, t; mpq_init (lb); mpq_init (t);
		for (int i = 0; i < F->cnt; i++) {
			if (mpq_sgn (F->v[i].a[n]) >= 0) continue;
			mpq_div (t, F->v[i].b, F->v[i].a[n]);   /* z >= b/a */
			if (best < 0 || mpq_cmp (t, lb) > 0) { mpq_set (lb, t); best = i; }
		}
		if (best >= 0) {
			mpq_t *val = mpq_arr_new (n + 1), cx, u; mpq_init (cx); mpq_init (u);
			mpq_set (val[n], lb);
			int bad = fm_backsub (&R1, val);
			for (int c = 0; c < n; c++) { mpq_set (T->x[c], val[c]); mpq_mul (u, L->obj[c], val[c]); mpq_add (cx, cx, u); }
			if (L->objsense == REF_MIN) mpq_set (T->val, lb); else mpq_neg (T->val, lb);
			if (bad || !ref_point_feasible (L, T->x) || !mpq_equal (cx, T->val) || !verify_combo (&orig1, &F->v[best])) T->selfcheck_failed = 1;
			else {
				/* the certified inequality must read  -t z <= -t lb  with no x part */
				int okc = 1; for (int c = 0; c < n; c++) if (mpq_sgn (F->v[best].a[c])) okc = 0;
				if (!okc) T->selfcheck_failed = 1; else T->status = TRUTH_OPTIMAL;
			}
			mpq_arr_free (val, n + 1); mpq_clear (cx); mpq_clear (u);
		}
		mpq_clear (lb); mpq_clear (t);
		fmrun_free (&R1); iset_free (&orig1);
		if (best >= 0) goto OUT;
	}
	/* 3. unbounded: find improving ray d: homogeneous system and s*c.d <= -1 */
	{
		ISet S2; build_system (L, &S2, n, 1, 1);
		Ineq *q = iset_push (&S2);
		for (int c = 0; c < n; c++) { mpq_set (q->a[c], L->obj[c]); if (L->objsense != REF_MIN) mpq_neg (q->a[c], q->a[c]); }
		mpq_set_si (q->b, -1, 1); mpq_set_ui (q->mu[2 * L->m + 2 * n], 1, 1);
		FMRun R2 = { 0 };
		fm_project (&S2, n, &R2);
		if (R2.status == 3) T->gaveup = 1;
		else if (R2.status == 2) T->selfcheck_failed = 1;
		else if (fm_backsub (&R2, T->ray) || !ray_ok (L, T->ray)) T->selfcheck_failed = 1;
		else T->status = TRUTH_UNBOUNDED;
		fmrun_free (&R2);
	}
OUT:
	fmrun_free (&R);
	iset_free (&orig);
	if (T->selfcheck_failed || T->gaveup) T->status = TRUTH_UNKNOWN;
	return T;
}
