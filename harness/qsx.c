#include <stdlib.h>
#include <string.h>
#include "qsx.h"
#include "logging.h"

#ifdef QSOPT_EX_VERIF
extern unsigned QSexact_verif_trace[8];
#endif

long g_log_count = 0;
SBuf g_logbuf;
static int g_logbuf_init = 0;
static void log_handler (const char *msg, void *data)
{
	(void) data;
	g_log_count++;
	if (g_verbose) vlog ("  [qslog] %s\n", msg);
	if (g_logbuf.len + strlen (msg) + 2 < (1u << 16)) sb_printf (&g_logbuf, "%s\n", msg);
}
void qsx_log_reset (void)
{
	if (!g_logbuf_init) { sb_init (&g_logbuf); sb_reserve (&g_logbuf, (1u << 16) + 8192); g_logbuf_init = 1; }
	g_logbuf.len = 0; g_logbuf.s[0] = 0; g_log_count = 0;
}
int qsx_log_has (const char *needle) { return g_logbuf_init && strstr (g_logbuf.s, needle) != NULL; }

void qsx_start (void)
{
	QSexactStart ();
	qsx_log_reset ();
	QSlog_set_handler (log_handler, NULL);
}
void qsx_stop (void)
{
	QSexactClear ();
}
const char *status_name (int st)
{
	switch (st) {
	case QS_LP_OPTIMAL: return "OPTIMAL";
	case QS_LP_INFEASIBLE: return "INFEASIBLE";
	case QS_LP_UNBOUNDED: return "UNBOUNDED";
	case QS_LP_ITER_LIMIT: return "ITER_LIMIT";
	case QS_LP_TIME_LIMIT: return "TIME_LIMIT";
	case QS_LP_UNSOLVED: return "UNSOLVED";
	case QS_LP_ABORTED: return "ABORTED";
	case QS_LP_NUMERR: return "NUMERR";
	case QS_LP_OBJ_LIMIT: return "OBJ_LIMIT";
	case QS_LP_MODIFIED: return "MODIFIED";
	case 0: return "ZERO";
	default: return "OTHER";
	}
}

void q_set_str (mpq_t q, const char *s) { if (mpq_set_str (q, s, 10)) { fprintf (stderr, "bad number %s\n", s); abort (); } mpq_canonicalize (q); }
int q_is_pinf (const mpq_t q) { return mpq_cmp (q, mpq_ILL_MAXDOUBLE) >= 0; }
int q_is_ninf (const mpq_t q) { return mpq_cmp (q, mpq_ILL_MINDOUBLE) <= 0; }

/* ------------------------------------------------------------ build */
mpq_QSprob qsx_build (const RefLP * L, int route, int explicit_zeros)
{
	int n = L->n, m = L->m, rv = 0;
	mpq_QSprob p = NULL;
	int hasR = 0;
	for (int r = 0; r < m; r++) if (L->sense[r] == 'R') hasR = 1;
	if (route == ROUTE_LOAD && hasR) route = ROUTE_ROWS;
	int maxnz = n * m + 1;
	int *cnt = calloc ((size_t) (n > m ? n : m) + 1, sizeof (int)), *beg = calloc ((size_t) (n > m ? n : m) + 1, sizeof (int)), *ind = calloc ((size_t) maxnz, sizeof (int));
	mpq_t *val = mpq_arr_new (maxnz), *lo = mpq_arr_new (n + 1), *up = mpq_arr_new (n + 1);
	for (int c = 0; c < n; c++) {
		if (L->loinf[c]) mpq_set (lo[c], mpq_ILL_MINDOUBLE); else mpq_set (lo[c], L->lo[c]);
		if (L->upinf[c]) mpq_set (up[c], mpq_ILL_MAXDOUBLE); else mpq_set (up[c], L->up[c]);
	}
	int qsense = L->objsense == REF_MIN ? QS_MIN : QS_MAX;
	if (route == ROUTE_LOAD) {
		int k = 0;
		for (int c = 0; c < n; c++) {
			beg[c] = k;
			for (int r = 0; r < m; r++) if (explicit_zeros || mpq_sgn (REF_A (L, r, c))) { ind[k] = r; mpq_set (val[k], REF_A (L, r, c)); k++; }
			cnt[c] = k - beg[c];
		}
		p = mpq_QSload_prob ("verif", n, m, cnt, beg, ind, val, qsense, L->obj, L->rhs, L->sense, lo, up,
												 (const char **) L->cname, (const char **) L->rname);
	} else {
		p = mpq_QScreate_prob ("verif", qsense);
		if (!p) goto DONE;
		if (route == ROUTE_ROWS || route == ROUTE_ROWS1) {
			for (int c = 0; c < n && !rv; c++) rv = mpq_QSnew_col (p, L->obj[c], lo[c], up[c], L->cname[c]);
			if (rv) goto FAIL;
			int k = 0;
			for (int r = 0; r < m; r++) {
				beg[r] = k;
				for (int c = 0; c < n; c++) if (explicit_zeros || mpq_sgn (REF_A (L, r, c))) { ind[k] = c; mpq_set (val[k], REF_A (L, r, c)); k++; }
				cnt[r] = k - beg[r];
			}
			if (route == ROUTE_ROWS) {
				if (m) rv = mpq_QSadd_ranged_rows (p, m, cnt, beg, ind, val, L->rhs, L->sense, L->range, (const char **) L->rname);
			} else {
				for (int r = 0; r < m && !rv; r++)
					rv = mpq_QSadd_ranged_row (p, cnt[r], ind + beg[r], val + beg[r], &L->rhs[r], L->sense[r], &L->range[r], L->rname[r]);
			}
			if (rv) goto FAIL;
		} else {
			for (int r = 0; r < m && !rv; r++) {
				if (L->sense[r] == 'R') rv = mpq_QSadd_ranged_row (p, 0, ind, val, &L->rhs[r], 'R', &L->range[r], L->rname[r]);
				else rv = mpq_QSnew_row (p, L->rhs[r], L->sense[r], L->rname[r]);
			}
			if (rv) goto FAIL;
			for (int c = 0; c < n && !rv; c++) {
				int k = 0;
				for (int r = 0; r < m; r++) if (explicit_zeros || mpq_sgn (REF_A (L, r, c))) { ind[k] = r; mpq_set (val[k], REF_A (L, r, c)); k++; }
				rv = mpq_QSadd_col (p, k, ind, val, L->obj[c], lo[c], up[c], L->cname[c]);
			}
			if (rv) goto FAIL;
		}
	}
	goto DONE;
FAIL:
	mpq_QSfree_prob (p); p = NULL;
DONE:
	free (cnt); free (beg); free (ind);
	mpq_arr_free (val, maxnz); mpq_arr_free (lo, n + 1); mpq_arr_free (up, n + 1);
	return p;
}

/* ------------------------------------------------------------ readback */
static void free_names (char **names, int k)
{
	if (!names) return;
	for (int i = 0; i < k; i++) if (names[i]) mpq_QSfree (names[i]);
	mpq_QSfree (names);
}
RefLP *qsx_readback (mpq_QSprob p, char *why, size_t wl)
{
	int n = mpq_QSget_colcount (p), m = mpq_QSget_rowcount (p), os = 0;
	int *rcnt = 0, *rbeg = 0, *rind = 0; mpq_t *rval = 0, *rhs = 0, *range = 0; char *sense = 0, **rnames = 0;
	RefLP *L = NULL;
	mpq_t *obj = mpq_arr_new (n + 1), *lo = mpq_arr_new (n + 1), *up = mpq_arr_new (n + 1);
	char **cnames = calloc ((size_t) n + 1, sizeof (char *));
	int *intf = calloc ((size_t) n + 1, sizeof (int));
	mpq_t zero; mpq_init (zero);
	if (mpq_QSget_objsense (p, &os)) { snprintf (why, wl, "get_objsense failed"); goto DONE; }
	if (n && (mpq_QSget_obj (p, obj) || mpq_QSget_bounds (p, lo, up) || mpq_QSget_colnames (p, cnames) || mpq_QSget_intflags (p, intf))) { snprintf (why, wl, "column query failed"); goto DONE; }
	if (m && mpq_QSget_ranged_rows (p, &rcnt, &rbeg, &rind, &rval, &rhs, &sense, &range, &rnames)) { snprintf (why, wl, "get_ranged_rows failed"); goto DONE; }
	L = ref_new (os == QS_MIN ? REF_MIN : REF_MAX);
	for (int c = 0; c < n; c++) {
		ref_add_col (L, obj[c], lo[c], q_is_ninf (lo[c]), up[c], q_is_pinf (up[c]), cnames[c]);
		L->isint[c] = intf[c] ? 1 : 0;
	}
	for (int r = 0; r < m; r++) {
		ref_add_row (L, sense[r], rhs[r], range ? range[r] : zero, rnames ? rnames[r] : NULL);
		for (int k = 0; k < rcnt[r]; k++) {
			int c = rind[rbeg[r] + k];
			if (c < 0 || c >= n) { snprintf (why, wl, "row %d has column index %d out of range", r, c); ref_free (L); L = NULL; goto DONE; }
			mpq_add (REF_A (L, r, c), REF_A (L, r, c), rval[rbeg[r] + k]);
		}
	}
DONE:
	mpq_clear (zero);
	mpq_arr_free (obj, n + 1); mpq_arr_free (lo, n + 1); mpq_arr_free (up, n + 1);
	for (int c = 0; c < n; c++) if (cnames[c]) mpq_QSfree (cnames[c]);
	free (cnames); free (intf);
	if (rcnt) mpq_QSfree (rcnt); if (rbeg) mpq_QSfree (rbeg); if (rind) mpq_QSfree (rind); if (sense) mpq_QSfree (sense);
	mpq_EGlpNumFreeArray (rval); mpq_EGlpNumFreeArray (rhs); mpq_EGlpNumFreeArray (range);
	free_names (rnames, m);
	return L;
}

/* ------------------------------------------------------------ conformance (C06) */
static int cmp_bound (const mpq_t got, int isinf_model, const mpq_t model, int upper)
{
	if (isinf_model) return upper ? !q_is_pinf (got) : !q_is_ninf (got);
	return !mpq_equal (got, model);
}
int qsx_conform (mpq_QSprob p, const RefLP * M, int check_names, char *why, size_t wl)
{
#define BAD(...) do { snprintf (why, wl, __VA_ARGS__); rv = 1; goto DONE; } while (0)
	int rv = 0, n = M->n, m = M->m;
	int *cnt = 0, *beg = 0, *ind = 0; mpq_t *val = 0, *rhs = 0, *range = 0, *obj = 0, *lo = 0, *up = 0; char *sense = 0, **names = 0;
	int *cnt2 = 0, *beg2 = 0, *ind2 = 0; mpq_t *val2 = 0, *rhs2 = 0; char *sense2 = 0, **names2 = 0;
	mpq_t *dense = mpq_arr_new (n * m + 1); char *seen = calloc ((size_t) n * m + 1, 1);
	mpq_t *qa = mpq_arr_new (n + m + 1), *qb = mpq_arr_new (n + m + 1);
	int *list = calloc ((size_t) n + m + 1, sizeof (int)), *ia = calloc ((size_t) n + m + 1, sizeof (int));
	char *ca = calloc ((size_t) n + m + 2, 1), **na = calloc ((size_t) n + m + 1, sizeof (char *));
	mpq_t t; mpq_init (t);
	int nent_rows = 0, nent_cols = 0, k, os;
	if (mpq_QSget_colcount (p) != n) BAD ("get_colcount %d, model %d", mpq_QSget_colcount (p), n);
	if (mpq_QSget_rowcount (p) != m) BAD ("get_rowcount %d, model %d", mpq_QSget_rowcount (p), m);
	if (mpq_QSget_objsense (p, &os) || (os == QS_MIN) != (M->objsense == REF_MIN)) BAD ("get_objsense %d", os);
	/* rows (ranged variant) */
	if (m) {
		if (mpq_QSget_ranged_rows (p, &cnt, &beg, &ind, &val, &rhs, &sense, &range, &names)) BAD ("get_ranged_rows failed");
		for (int r = 0; r < m; r++) {
			if (sense[r] != M->sense[r]) BAD ("get_ranged_rows sense[%d]=%c model %c", r, sense[r], M->sense[r]);
			if (!mpq_equal (rhs[r], M->rhs[r])) BAD ("get_ranged_rows rhs[%d] differs", r);
			if (M->sense[r] == 'R' && !mpq_equal (range[r], M->range[r])) BAD ("get_ranged_rows range[%d] differs", r);
			/* documented: a range given for a row that is not 'R' is ignored - such a row has range zero */
			if (M->sense[r] != 'R' && mpq_sgn (range[r])) BAD ("get_ranged_rows range[%d] is non-zero for a row of sense %c", r, M->sense[r]);
			if (check_names && M->rname[r] && strcmp (names[r], M->rname[r])) BAD ("get_ranged_rows name[%d]='%s' model '%s'", r, names[r], M->rname[r]);
			if (beg[r] != nent_rows) BAD ("get_ranged_rows rowbeg[%d]=%d expected %d", r, beg[r], nent_rows);
			for (k = 0; k < cnt[r]; k++) {
				int c = ind[beg[r] + k];
				if (c < 0 || c >= n) BAD ("row %d entry refers to column %d", r, c);
				if (seen[r * n + c]) BAD ("row %d has duplicate entry for column %d", r, c);
				seen[r * n + c] = 1; mpq_set (dense[r * n + c], val[beg[r] + k]);
			}
			nent_rows += cnt[r];
		}
		for (int r = 0; r < m; r++) for (int c = 0; c < n; c++)
			if (!mpq_equal (dense[r * n + c], REF_A (M, r, c))) BAD ("row-wise A[%d][%d] differs from model", r, c);
		/* plain variant must agree */
		if (mpq_QSget_rows (p, &cnt2, &beg2, &ind2, &val2, &rhs2, &sense2, &names2)) BAD ("get_rows failed");
		for (int r = 0; r < m; r++) {
			if (cnt2[r] != cnt[r] || beg2[r] != beg[r] || sense2[r] != sense[r] || !mpq_equal (rhs2[r], rhs[r]) || strcmp (names2[r], names[r])) BAD ("get_rows and get_ranged_rows disagree on row %d", r);
			for (k = 0; k < cnt[r]; k++) if (ind2[beg[r] + k] != ind[beg[r] + k] || !mpq_equal (val2[beg[r] + k], val[beg[r] + k])) BAD ("get_rows and get_ranged_rows disagree on row %d entry %d", r, k);
		}
		/* list variant, reversed order */
		mpq_QSfree (cnt2); mpq_QSfree (beg2); mpq_QSfree (ind2); mpq_QSfree (sense2); cnt2 = beg2 = ind2 = 0; sense2 = 0;
		mpq_EGlpNumFreeArray (val2); mpq_EGlpNumFreeArray (rhs2); free_names (names2, m); names2 = 0;
		for (int r = 0; r < m; r++) list[r] = m - 1 - r;
		if (mpq_QSget_rows_list (p, m, list, &cnt2, &beg2, &ind2, &val2, &rhs2, &sense2, &names2)) BAD ("get_rows_list failed");
		for (int i = 0; i < m; i++) {
			int r = list[i];
			if (cnt2[i] != cnt[r] || sense2[i] != sense[r] || !mpq_equal (rhs2[i], rhs[r]) || strcmp (names2[i], names[r])) BAD ("get_rows_list disagrees on row %d", r);
			for (k = 0; k < cnt[r]; k++) if (ind2[beg2[i] + k] != ind[beg[r] + k] || !mpq_equal (val2[beg2[i] + k], val[beg[r] + k])) BAD ("get_rows_list disagrees on row %d entry %d", r, k);
		}
		/* names + index lookup */
		if (mpq_QSget_rownames (p, na)) BAD ("get_rownames failed");
		for (int r = 0; r < m; r++) {
			int idx = -5;
			if (strcmp (na[r], names[r])) BAD ("get_rownames[%d] differs", r);
			if (mpq_QSget_row_index (p, na[r], &idx) || idx != r) BAD ("get_row_index('%s') = %d expected %d", na[r], idx, r);
			for (int r2 = 0; r2 < r; r2++) if (!strcmp (na[r], na[r2])) BAD ("duplicate row name '%s'", na[r]);
		}
		for (int r = 0; r < m; r++) { mpq_QSfree (na[r]); na[r] = 0; }
		if (mpq_QSget_rhs (p, qa)) BAD ("get_rhs failed");
		for (int r = 0; r < m; r++) if (!mpq_equal (qa[r], M->rhs[r])) BAD ("get_rhs[%d] differs", r);
		if (mpq_QSget_senses (p, ca)) BAD ("get_senses failed");
		for (int r = 0; r < m; r++) if (ca[r] != M->sense[r]) BAD ("get_senses[%d]=%c model %c", r, ca[r], M->sense[r]);
	}
	/* columns */
	if (n) {
		int *ccnt = 0, *cbeg = 0, *cind = 0; mpq_t *cval = 0; char **cnames = 0;
		memset (seen, 0, (size_t) n * m + 1);
		if (mpq_QSget_columns (p, &ccnt, &cbeg, &cind, &cval, &obj, &lo, &up, &cnames)) BAD ("get_columns failed");
		for (int c = 0; c < n && !rv; c++) {
			if (!mpq_equal (obj[c], M->obj[c])) { snprintf (why, wl, "get_columns obj[%d] differs", c); rv = 1; }
			else if (cmp_bound (lo[c], M->loinf[c], M->lo[c], 0)) { snprintf (why, wl, "get_columns lower[%d] differs", c); rv = 1; }
			else if (cmp_bound (up[c], M->upinf[c], M->up[c], 1)) { snprintf (why, wl, "get_columns upper[%d] differs", c); rv = 1; }
			else if (check_names && M->cname[c] && strcmp (cnames[c], M->cname[c])) { snprintf (why, wl, "get_columns name[%d]='%s' model '%s'", c, cnames[c], M->cname[c]); rv = 1; }
			else if (cbeg[c] != nent_cols) { snprintf (why, wl, "get_columns colbeg[%d]=%d expected %d", c, cbeg[c], nent_cols); rv = 1; }
			for (k = 0; k < ccnt[c] && !rv; k++) {
				int r = cind[cbeg[c] + k];
				if (r < 0 || r >= m) { snprintf (why, wl, "column %d entry refers to row %d", c, r); rv = 1; break; }
				if (seen[r * n + c]) { snprintf (why, wl, "column %d has duplicate entry for row %d", c, r); rv = 1; break; }
				seen[r * n + c] = 1;
				if (!mpq_equal (cval[cbeg[c] + k], REF_A (M, r, c))) { snprintf (why, wl, "column-wise A[%d][%d] differs from model", r, c); rv = 1; }
			}
			nent_cols += ccnt[c];
		}
		if (!rv) for (int r = 0; r < m && !rv; r++) for (int c = 0; c < n; c++)
			if (!seen[r * n + c] && mpq_sgn (REF_A (M, r, c))) { snprintf (why, wl, "column-wise extraction misses A[%d][%d]", r, c); rv = 1; break; }
		/* list variant reversed */
		int *c2 = 0, *b2 = 0, *i2 = 0; mpq_t *v2 = 0, *o2 = 0, *l2 = 0, *u2 = 0; char **n2 = 0;
		if (!rv) {
			for (int c = 0; c < n; c++) list[c] = n - 1 - c;
			if (mpq_QSget_columns_list (p, n, list, &c2, &b2, &i2, &v2, &o2, &l2, &u2, &n2)) { snprintf (why, wl, "get_columns_list failed"); rv = 1; }
			for (int i = 0; i < n && !rv; i++) {
				int c = list[i];
				if (c2[i] != ccnt[c] || !mpq_equal (o2[i], obj[c]) || !mpq_equal (l2[i], lo[c]) || !mpq_equal (u2[i], up[c]) || strcmp (n2[i], cnames[c])) { snprintf (why, wl, "get_columns_list disagrees on column %d", c); rv = 1; }
				for (k = 0; k < ccnt[c] && !rv; k++) if (i2[b2[i] + k] != cind[cbeg[c] + k] || !mpq_equal (v2[b2[i] + k], cval[cbeg[c] + k])) { snprintf (why, wl, "get_columns_list disagrees on column %d entry %d", c, k); rv = 1; }
			}
			if (c2) mpq_QSfree (c2); if (b2) mpq_QSfree (b2); if (i2) mpq_QSfree (i2);
			mpq_EGlpNumFreeArray (v2); mpq_EGlpNumFreeArray (o2); mpq_EGlpNumFreeArray (l2); mpq_EGlpNumFreeArray (u2); free_names (n2, n);
		}
		if (!rv) {
			if (mpq_QSget_colnames (p, na)) { snprintf (why, wl, "get_colnames failed"); rv = 1; }
			for (int c = 0; c < n && !rv; c++) {
				int idx = -5;
				if (strcmp (na[c], cnames[c])) { snprintf (why, wl, "get_colnames[%d] differs", c); rv = 1; }
				else if (mpq_QSget_column_index (p, na[c], &idx) || idx != c) { snprintf (why, wl, "get_column_index('%s') = %d expected %d", na[c], idx, c); rv = 1; }
				for (int c3 = 0; c3 < c && !rv; c3++) if (!strcmp (na[c], na[c3])) { snprintf (why, wl, "duplicate column name '%s'", na[c]); rv = 1; }
			}
			for (int c = 0; c < n; c++) if (na[c]) { mpq_QSfree (na[c]); na[c] = 0; }
		}
		if (ccnt) mpq_QSfree (ccnt); if (cbeg) mpq_QSfree (cbeg); if (cind) mpq_QSfree (cind);
		mpq_EGlpNumFreeArray (cval); free_names (cnames, n);
		if (rv) goto DONE;
		if (nent_rows != nent_cols && m) BAD ("row-wise extraction has %d entries, column-wise %d", nent_rows, nent_cols);
		if (mpq_QSget_obj (p, qa)) BAD ("get_obj failed");
		for (int c = 0; c < n; c++) if (!mpq_equal (qa[c], M->obj[c])) BAD ("get_obj[%d] differs", c);
		if (mpq_QSget_bounds (p, qa, qb)) BAD ("get_bounds failed");
		for (int c = 0; c < n; c++) {
			if (cmp_bound (qa[c], M->loinf[c], M->lo[c], 0)) BAD ("get_bounds lower[%d] differs", c);
			if (cmp_bound (qb[c], M->upinf[c], M->up[c], 1)) BAD ("get_bounds upper[%d] differs", c);
			if (mpq_QSget_bound (p, c, 'L', &t) || cmp_bound (t, M->loinf[c], M->lo[c], 0)) BAD ("get_bound(%d,L) differs", c);
			if (mpq_QSget_bound (p, c, 'U', &t) || cmp_bound (t, M->upinf[c], M->up[c], 1)) BAD ("get_bound(%d,U) differs", c);
		}
		for (int c = 0; c < n; c++) list[c] = n - 1 - c;
		if (mpq_QSget_obj_list (p, n, list, qa)) BAD ("get_obj_list failed");
		for (int i = 0; i < n; i++) if (!mpq_equal (qa[i], M->obj[list[i]])) BAD ("get_obj_list[%d] differs", i);
		if (mpq_QSget_bounds_list (p, n, list, qa, qb)) BAD ("get_bounds_list failed");
		for (int i = 0; i < n; i++) if (cmp_bound (qa[i], M->loinf[list[i]], M->lo[list[i]], 0) || cmp_bound (qb[i], M->upinf[list[i]], M->up[list[i]], 1)) BAD ("get_bounds_list[%d] differs", i);
		if (mpq_QSget_intflags (p, ia)) BAD ("get_intflags failed");
		int ic = 0, icm = 0;
		for (int c = 0; c < n; c++) { if (!ia[c] != !M->isint[c]) BAD ("get_intflags[%d] differs", c); if (M->isint[c]) icm++; }
		if (mpq_QSget_intcount (p, &ic) || ic != icm) BAD ("get_intcount %d model %d", ic, icm);
	}
	if (mpq_QSget_nzcount (p) != (m ? nent_rows : nent_cols)) BAD ("get_nzcount %d but %d entries are stored", mpq_QSget_nzcount (p), m ? nent_rows : nent_cols);
	for (int r = 0; r < m; r++) for (int c = 0; c < n; c++) {
		if (mpq_QSget_coef (p, r, c, &t)) BAD ("get_coef(%d,%d) failed", r, c);
		if (!mpq_equal (t, REF_A (M, r, c))) BAD ("get_coef(%d,%d) differs from model", r, c);
	}
DONE:
	mpq_clear (t);
	if (cnt) mpq_QSfree (cnt); if (beg) mpq_QSfree (beg); if (ind) mpq_QSfree (ind); if (sense) mpq_QSfree (sense);
	mpq_EGlpNumFreeArray (val); mpq_EGlpNumFreeArray (rhs); mpq_EGlpNumFreeArray (range); free_names (names, m);
	if (cnt2) mpq_QSfree (cnt2); if (beg2) mpq_QSfree (beg2); if (ind2) mpq_QSfree (ind2); if (sense2) mpq_QSfree (sense2);
	mpq_EGlpNumFreeArray (val2); mpq_EGlpNumFreeArray (rhs2); free_names (names2, m);
	mpq_EGlpNumFreeArray (obj); mpq_EGlpNumFreeArray (lo); mpq_EGlpNumFreeArray (up);
	for (int i = 0; i < n + m; i++) if (na[i]) mpq_QSfree (na[i]);
	mpq_arr_free (dense, n * m + 1); free (seen); mpq_arr_free (qa, n + m + 1); mpq_arr_free (qb, n + m + 1);
	free (list); free (ia); free (ca); free (na);
	return rv;
#undef BAD
}

/* ------------------------------------------------------------ config */
void cfg_default (Cfg * c)
{
	memset (c, 0, sizeof *c);
	c->entry = ENTRY_EXACT; c->algo = DUAL_SIMPLEX; c->ppr = QS_DEFAULT_PRICE_PII; c->dpr = QS_DEFAULT_PRICE_DII;
	c->scaling = 1; c->display = 0; c->prec = 0; c->itlim = 0; c->repeat = 0;
}
int cfg_apply (mpq_QSprob p, const Cfg * c)
{
	int rv = 0;
	rv |= mpq_QSset_param (p, QS_PARAM_PRIMAL_PRICING, c->ppr);
	rv |= mpq_QSset_param (p, QS_PARAM_DUAL_PRICING, c->dpr);
	rv |= mpq_QSset_param (p, QS_PARAM_SIMPLEX_SCALING, c->scaling);
	rv |= mpq_QSset_param (p, QS_PARAM_SIMPLEX_DISPLAY, c->display);
	if (c->itlim) rv |= mpq_QSset_param (p, QS_PARAM_SIMPLEX_MAX_ITERATIONS, c->itlim);
	if (c->prec) QSexact_set_precision ((unsigned) c->prec);
	return rv;
}
void cfg_str (const Cfg * c, char *buf, size_t bl)
{
	static const char *en[] = { "QSexact_solver", "mpq_QSopt_primal", "mpq_QSopt_dual" };
	snprintf (buf, bl, "entry=%s algo=%s ppr=%d dpr=%d scaling=%d display=%d prec=%d itlim=%d repeat=%d", en[c->entry],
						c->algo == PRIMAL_SIMPLEX ? "PRIMAL" : "DUAL", c->ppr, c->dpr, c->scaling, c->display, c->prec, c->itlim, c->repeat);
}

/* ------------------------------------------------------------ solve + observe */
SolveObs *obs_new (int n, int m)
{
	SolveObs *o = calloc (1, sizeof *o);
	o->n = n; o->m = m;
	o->x = mpq_arr_new (n + m + 1); o->y = mpq_arr_new (m + 1);
	o->ax = mpq_arr_new (n + 1); o->api = mpq_arr_new (m + 1); o->arc = mpq_arr_new (n + 1); o->aslack = mpq_arr_new (m + 1);
	o->sx = mpq_arr_new (n + 1); o->spi = mpq_arr_new (m + 1); o->src = mpq_arr_new (n + 1); o->sslack = mpq_arr_new (m + 1);
	mpq_init (o->objval); mpq_init (o->solval);
	return o;
}
void obs_free (SolveObs * o)
{
	if (!o) return;
	int n = o->n, m = o->m;
	mpq_arr_free (o->x, n + m + 1); mpq_arr_free (o->y, m + 1);
	mpq_arr_free (o->ax, n + 1); mpq_arr_free (o->api, m + 1); mpq_arr_free (o->arc, n + 1); mpq_arr_free (o->aslack, m + 1);
	mpq_arr_free (o->sx, n + 1); mpq_arr_free (o->spi, m + 1); mpq_arr_free (o->src, n + 1); mpq_arr_free (o->sslack, m + 1);
	mpq_clear (o->objval); mpq_clear (o->solval);
	if (o->basis) mpq_QSfree_basis (o->basis);
	free (o);
}
QSbasis *qsx_basis_dup (const QSbasis * b)
{
	if (!b) return NULL;
	QSbasis *d = calloc (1, sizeof *d);
	d->nstruct = b->nstruct; d->nrows = b->nrows;
	d->cstat = malloc ((size_t) b->nstruct + 1); d->rstat = malloc ((size_t) b->nrows + 1);
	if (b->nstruct) memcpy (d->cstat, b->cstat, (size_t) b->nstruct);
	if (b->nrows) memcpy (d->rstat, b->rstat, (size_t) b->nrows);
	return d;
}
void qsx_solve (mpq_QSprob p, const Cfg * c, QSbasis * warm, SolveObs * o)
{
	int n = o->n, m = o->m;
	o->status = -1; o->rval = 0; o->path = 0; o->mpf_levels = 0;
	if (o->basis) { mpq_QSfree_basis (o->basis); o->basis = NULL; }
	long lc0 = g_log_count;
#ifdef QSOPT_EX_VERIF
	memset (QSexact_verif_trace, 0, sizeof QSexact_verif_trace);
#endif
	if (c->entry == ENTRY_EXACT) {
		QSbasis *b = warm ? qsx_basis_dup (warm) : calloc (1, sizeof (QSbasis));
		o->rval = QSexact_solver (p, o->x, o->y, b, c->algo, &o->status);
		if (b->nstruct || b->nrows || b->cstat || b->rstat) o->basis = b;
		else mpq_QSfree_basis (b);
#ifdef QSOPT_EX_VERIF
		o->path = (QSexact_verif_trace[0] ? 1 : 0) | (QSexact_verif_trace[3] ? 2 : 0) | (QSexact_verif_trace[2] ? 4 : 0) | (QSexact_verif_trace[6] ? 8 : 0);
		o->mpf_levels = (int) QSexact_verif_trace[3];
#endif
	} else {
		int rv = 0;
		if (warm) rv = mpq_QSload_basis (p, warm);
		if (rv) { o->rval = 1000 + rv; }
		else if (c->entry == ENTRY_PRIMAL) o->rval = mpq_QSopt_primal (p, &o->status);
		else o->rval = mpq_QSopt_dual (p, &o->status);
		o->basis = mpq_QSget_basis (p);
	}
	o->rv_status = mpq_QSget_status (p, &o->st_get);
	o->rv_objval = mpq_QSget_objval (p, &o->objval);
	o->rv_x = n ? mpq_QSget_x_array (p, o->ax) : 0;
	o->rv_pi = m ? mpq_QSget_pi_array (p, o->api) : 0;
	o->rv_rc = n ? mpq_QSget_rc_array (p, o->arc) : 0;
	o->rv_slack = m ? mpq_QSget_slack_array (p, o->aslack) : 0;
	o->rv_sol = mpq_QSget_solution (p, &o->solval, o->sx, o->spi, o->sslack, o->src);
	o->log_msgs = g_log_count - lc0;
}
void obs_transcript (const SolveObs * o)
{
	tr_int (o->rval); tr_int (o->status); tr_int (o->rv_status); tr_int (o->st_get);
	tr_int (o->rv_objval); tr_int (o->rv_x); tr_int (o->rv_pi); tr_int (o->rv_rc); tr_int (o->rv_slack); tr_int (o->rv_sol);
	if (o->status == QS_LP_OPTIMAL && !o->rval) {
		if (!o->rv_objval) tr_mpq (o->objval);
		if (!o->rv_x) for (int i = 0; i < o->n; i++) tr_mpq (o->ax[i]);
		if (!o->rv_pi) for (int i = 0; i < o->m; i++) tr_mpq (o->api[i]);
		if (!o->rv_rc) for (int i = 0; i < o->n; i++) tr_mpq (o->arc[i]);
		if (!o->rv_slack) for (int i = 0; i < o->m; i++) tr_mpq (o->aslack[i]);
	}
	if (o->basis) { tr_int (o->basis->nstruct); tr_int (o->basis->nrows); tr_bytes (o->basis->cstat, (size_t) o->basis->nstruct); tr_bytes (o->basis->rstat, (size_t) o->basis->nrows); }
	tr_int (o->path);
}

int qsx_check_optimal (const RefLP * L, const SolveObs * o, int exact_entry, char *why, size_t wl)
{
	int rv = 0, n = L->n, m = L->m;
	SF *S = sf_from_ref (L);
	mpq_t *z = mpq_arr_new (n + m + 1);
	char w[300];
	if (o->rv_status || o->st_get != QS_LP_OPTIMAL) { snprintf (why, wl, "solve said OPTIMAL but get_status gives rval=%d status=%s", o->rv_status, status_name (o->st_get)); rv = 1; goto DONE; }
	if (o->rv_objval || (n && (o->rv_x || o->rv_rc)) || (m && (o->rv_pi || o->rv_slack)) || o->rv_sol) {
		snprintf (why, wl, "OPTIMAL but an accessor failed (objval=%d x=%d pi=%d rc=%d slack=%d solution=%d)", o->rv_objval, o->rv_x, o->rv_pi, o->rv_rc, o->rv_slack, o->rv_sol);
		rv = 1; goto DONE;
	}
	/* accessor solution */
	for (int j = 0; j < n; j++) mpq_set (z[j], o->ax[j]);
	for (int i = 0; i < m; i++) mpq_set (z[n + i], o->aslack[i]);
	if (oopt_check (S, z, o->api, o->arc, o->objval, w, sizeof w)) { snprintf (why, wl, "accessor solution is not an exact optimality certificate: %s", w); rv = 1; goto DONE; }
	/* get_solution must agree with the array accessors */
	if (!mpq_equal (o->solval, o->objval)) { snprintf (why, wl, "get_solution value differs from get_objval"); rv = 1; goto DONE; }
	for (int j = 0; j < n; j++) if (!mpq_equal (o->sx[j], o->ax[j]) || !mpq_equal (o->src[j], o->arc[j])) { snprintf (why, wl, "get_solution x/rc[%d] differs from array accessor", j); rv = 1; goto DONE; }
	for (int i = 0; i < m; i++) if (!mpq_equal (o->spi[i], o->api[i]) || !mpq_equal (o->sslack[i], o->aslack[i])) { snprintf (why, wl, "get_solution pi/slack[%d] differs from array accessor", i); rv = 1; goto DONE; }
	if (exact_entry) {
		/* out-parameters x (structurals then logicals) and y */
		if (oopt_check (S, o->x, o->y, NULL, o->objval, w, sizeof w)) { snprintf (why, wl, "out-parameter (x,y) is not an exact optimality certificate: %s", w); rv = 1; goto DONE; }
	}
DONE:
	mpq_arr_free (z, n + m + 1);
	sf_free (S);
	return rv;
}
