/* E-INST x all valid bases: C12 (exact basis verdicts) and C14 (basis file round trip).
 * One item = one LP instance; every basis = every choice of m basic variables among the
 * n+m structural+logical ones x every assignment of the others to an existing finite
 * bound (or free for a free column) is enumerated inside the item. */
#include <stdlib.h>
#include <string.h>
#include <unistd.h>
#include "lpfam.h"

static int is_T;
static int o_files, o_verify, o_warm;
static void basis_init (void)
{
	const char *fam = opt_str ("fam", "S0c");
	is_T = !strcmp (fam, "T");
	if (!is_T) lpfam_select (fam);
	o_files = (int) opt_int ("files", 1);
	o_verify = (int) opt_int ("verify", 1);
	o_warm = (int) opt_int ("warm", 0);
	qsx_start ();
}
static long basis_count (void) { return is_T ? tfam_count () : lpfam_count (); }

static void bdesc (const RefLP * L, const char *cs, const char *rs, char *buf, size_t bl)
{
	SBuf b; sb_init (&b); ref_dump (&b, L, 0);
	snprintf (buf, bl, "LP{%s} basis{cstat=%.*s rstat=%.*s}", b.s, L->n, cs, L->m, rs);
	sb_free (&b);
}
/* enumerate: st[j] in {'1' basic, '0','2','3'}; returns next assignment via odometer */
typedef struct { int N, n, m; char opts[16][4]; int nopt[16]; int dig[16]; } BEnum;
static void benum_init (BEnum * E, const SF * S, const RefLP * L)
{
	E->N = S->N; E->n = S->n; E->m = S->m;
	for (int j = 0; j < S->N; j++) {
		int k = 0;
		E->opts[j][k++] = '1';
		if (!S->loinf[j]) E->opts[j][k++] = '0';
		/* the library accepts status 'upper' for a row only when the row is ranged */
		if (!S->upinf[j] && (j < S->n || L->sense[j - S->n] == 'R')) E->opts[j][k++] = '2';
		if (S->loinf[j] && S->upinf[j] && j < S->n) E->opts[j][k++] = '3';
		E->nopt[j] = k; E->dig[j] = 0;
	}
}
static int benum_next (BEnum * E)
{
	for (int j = 0; j < E->N; j++) { if (++E->dig[j] < E->nopt[j]) return 1; E->dig[j] = 0; }
	return 0;
}
static int benum_get (const BEnum * E, char *cs, char *rs)
{
	int nb = 0;
	for (int j = 0; j < E->N; j++) { char c = E->opts[j][E->dig[j]]; if (c == '1') nb++; if (j < E->n) cs[j] = c; else rs[j - E->n] = c; }
	return nb == E->m;
}


/* used by family hist (opt verd=1): the verdict functions on the problem's CURRENT basis, in the middle of an edit/solve history.
 * The calls are part of the history (they build and may keep internal state); the answers are compared with exact
 * elimination on the model as it is now. */
void c12_check_current_basis (mpq_QSprob p, const RefLP * L, const char *ctx)
{
	if (L->n == 0 || L->m == 0 || L->n + L->m > 12 || !ref_wellformed (L)) return;
	char cs[16] = { 0 }, rs[16] = { 0 };
	if (mpq_QSget_basis_array (p, cs, rs)) { STAT ("verd_no_basis"); return; }
	SF *S = sf_from_ref (L);
	BasisSol *B = obasis_solve (S, cs, rs);
	if (!B->valid || B->singular) { STAT ("verd_basis_invalid_or_singular"); obasis_free (B, S); sf_free (S); return; }
	STAT ("verd_states_checked");
	QSbasis qb; qb.nstruct = L->n; qb.nrows = L->m; qb.cstat = cs; qb.rstat = rs;
	mpq_t dob, neg; mpq_init (dob); mpq_init (neg);
	char res = 9; int rv;
	for (int via = 0; via < 2; via++) {
		res = 9; mpq_set_si (dob, -12345, 1);
		rv = via ? QSexact_verify (p, &qb, 0, NULL, NULL, &res, &dob, 1) : QSexact_basis_dualstatus (p, &qb, &res, &dob, 1);
		const char *fn = via ? "QSexact_verify(prestep=0)" : "QSexact_basis_dualstatus";
		if (rv) viol ("C12", "hist-dualstatus-error", "%s returned %d on the problem's own basis cstat=%.*s rstat=%.*s [history: %s]", fn, rv, L->n, cs, L->m, rs, ctx);
		else if ((res == 1) != B->dfeas)
			viol ("C12", res ? "hist-dualstatus-false-yes" : "hist-dualstatus-false-no", "%s says %d but the basis is dual %s for the current LP: cstat=%.*s rstat=%.*s [history: %s]", fn, res, B->dfeas ? "feasible" : "infeasible", L->n, cs, L->m, rs, ctx);
		else if (res == 1) {
			mpq_neg (neg, B->dobj);
			if (!mpq_equal (dob, B->dobj) && !(L->objsense == REF_MAX && mpq_equal (dob, neg))) {
				char *a = q_str (dob), *b2 = q_str (B->dobj);
				viol ("C12", "hist-dualstatus-dobjval", "%s reports dual bound %s but the exact dual objective of the basis for the current LP is %s: cstat=%.*s rstat=%.*s [history: %s]", fn, a, b2, L->n, cs, L->m, rs, ctx);
				free (a); free (b2);
			}
		}
	}
	/* last: this one rebuilds the library's internal copy of the LP; the two above come first after an edit */
	res = 9;
	rv = QSexact_basis_optimalstatus (p, &qb, &res, 1);
	if (rv) viol ("C12", "hist-optimalstatus-error", "QSexact_basis_optimalstatus returned %d on the problem's own basis cstat=%.*s rstat=%.*s [history: %s]", rv, L->n, cs, L->m, rs, ctx);
	else if ((res == 1) != (B->pfeas && B->dfeas))
		viol ("C12", res ? "hist-optimalstatus-false-yes" : "hist-optimalstatus-false-no", "QSexact_basis_optimalstatus says %d but the exact basic solution of the current LP is primal %s, dual %s: basis cstat=%.*s rstat=%.*s [history: %s]",
			res, B->pfeas ? "feasible" : "infeasible", B->dfeas ? "feasible" : "infeasible", L->n, cs, L->m, rs, ctx);
	mpq_clear (dob); mpq_clear (neg);
	obasis_free (B, S); sf_free (S);
}

static void basis_run (long item)
{
	char label[128] = "", why[500], desc[5000];
	RefLP *L = is_T ? tfam_decode (item, label, sizeof label) : lpfam_decode (item);
	if (!L) { STAT ("skipped_noncanonical"); return; }
	if (L->n + L->m > 12 || !ref_wellformed (L)) { STAT ("skipped_too_large_or_illformed"); ref_free (L); return; }
	STAT ("instances");
	SF *S = sf_from_ref (L);
	mpq_QSprob p = qsx_build (L, ROUTE_LOAD, 0);
	if (!p) { viol ("C06", "build-failed", "could not build instance"); sf_free (S); ref_free (L); return; }
	Truth *T = o_warm ? ref_solve (L) : NULL;
	BEnum E; benum_init (&E, S, L);
	char cs[16], rs[16];
	long nb = 0;
	int any_nonsing = 0;
	mpq_t dob, neg; mpq_init (dob); mpq_init (neg);
	do {
		if (!benum_get (&E, cs, rs)) continue;
		nb++;
		STAT ("bases");
		BasisSol *B = obasis_solve (S, cs, rs);
		if (!B->valid) { STAT ("bases_invalid"); obasis_free (B, S); continue; }
		QSbasis qb; qb.nstruct = L->n; qb.nrows = L->m; qb.cstat = cs; qb.rstat = rs;
		if (B->singular) STAT ("bases_singular");
		else {
			any_nonsing = 1;
			STAT ("bases_nonsingular");
			if (B->pfeas && B->dfeas) STAT ("bases_optimal"); else if (B->dfeas) STAT ("bases_dual_feasible_only"); else if (B->pfeas) STAT ("bases_primal_feasible_only"); else STAT ("bases_neither");
			/* ---- C12: exact verdict functions */
			char res = 9;
			int rv = QSexact_basis_optimalstatus (p, &qb, &res, 1);
			STAT ("executions");
			tr_int (rv); tr_int (res);
			if (rv) { bdesc (L, cs, rs, desc, sizeof desc); viol ("C12", "optimalstatus-error", "QSexact_basis_optimalstatus returned %d on a valid non-singular basis: %s", rv, desc); }
			else if ((res == 1) != (B->pfeas && B->dfeas)) {
				bdesc (L, cs, rs, desc, sizeof desc);
				viol ("C12", res ? "optimalstatus-false-yes" : "optimalstatus-false-no", "QSexact_basis_optimalstatus says %d but the exact basic solution is primal %s, dual %s: %s", res, B->pfeas ? "feasible" : "infeasible", B->dfeas ? "feasible" : "infeasible", desc);
			}
			res = 9; mpq_set_si (dob, -12345, 1);
			rv = QSexact_basis_dualstatus (p, &qb, &res, &dob, 1);
			STAT ("executions");
			tr_int (rv); tr_int (res);
			if (rv) { bdesc (L, cs, rs, desc, sizeof desc); viol ("C12", "dualstatus-error", "QSexact_basis_dualstatus returned %d on a valid non-singular basis: %s", rv, desc); }
			else if ((res == 1) != B->dfeas) {
				bdesc (L, cs, rs, desc, sizeof desc);
				viol ("C12", res ? "dualstatus-false-yes" : "dualstatus-false-no", "QSexact_basis_dualstatus says %d but the exact basic solution is dual %s: %s", res, B->dfeas ? "feasible" : "infeasible", desc);
			} else if (res == 1) {
				mpq_neg (neg, B->dobj);
				tr_mpq (dob);
				if (!mpq_equal (dob, B->dobj) && !(L->objsense == REF_MAX && mpq_equal (dob, neg))) {
					bdesc (L, cs, rs, desc, sizeof desc);
					char *a = q_str (dob), *b2 = q_str (B->dobj);
					viol ("C12", "dualstatus-dobjval", "QSexact_basis_dualstatus reports dual bound %s but the exact dual objective of the basis is %s: %s", a, b2, desc);
					free (a); free (b2);
				}
			}
			if (o_verify) {
				for (int pre = 0; pre < 2; pre++) {
					res = 9; mpq_set_si (dob, -12345, 1);
					rv = QSexact_verify (p, &qb, pre, NULL, NULL, &res, &dob, 1);
					STAT ("executions");
					tr_int (rv); tr_int (res);
					if (rv) { bdesc (L, cs, rs, desc, sizeof desc); viol ("C12", "verify-error", "QSexact_verify(prestep=%d) returned %d: %s", pre, rv, desc); continue; }
					if (pre == 0 && (res == 1) != B->dfeas) {
						bdesc (L, cs, rs, desc, sizeof desc);
						viol ("C12", res ? "verify-false-yes" : "verify-false-no", "QSexact_verify(prestep=0) says %d but the basis is dual %s: %s", res, B->dfeas ? "feasible" : "infeasible", desc);
					}
					if (pre == 1 && B->dfeas && res != 1) {
						bdesc (L, cs, rs, desc, sizeof desc);
						viol ("C12", "verify-prestep-false-no", "QSexact_verify(prestep=1) says 0 for a dual feasible basis: %s", desc);
					}
					if (pre == 1 && res == 1 && !B->dfeas) STAT ("verify_prestep_yes_via_approx_solution");
				}
			}
		}
		/* ---- C04: a warm start from ANY valid basis (singular ones included) must not change the answer */
		if (o_warm && T && T->status != TRUTH_UNKNOWN) {
			static const int algos[2] = { DUAL_SIMPLEX, PRIMAL_SIMPLEX };
			for (int ai = 0; ai < 2; ai++) {
				mpq_QSprob pw = qsx_build (L, ROUTE_LOAD, 0);
				if (!pw) continue;
				QSbasis *wb = qsx_basis_dup (&qb);
				int st = 0, rv = QSexact_solver (pw, NULL, NULL, wb, algos[ai], &st);
				STAT ("executions"); STAT ("warm_starts");
				int want = T->status == TRUTH_OPTIMAL ? QS_LP_OPTIMAL : T->status == TRUTH_INFEASIBLE ? QS_LP_INFEASIBLE : QS_LP_UNBOUNDED;
				mpq_t v; mpq_init (v);
				tr_int (rv); tr_int (st);
				if (rv || st != want || (want == QS_LP_OPTIMAL && (mpq_QSget_objval (pw, &v) || !mpq_equal (v, T->val)))) {
					bdesc (L, cs, rs, desc, sizeof desc);
					char sig[96]; snprintf (sig, sizeof sig, "warmstart-truth-%s-got-%s", status_name (want), rv ? "ERR" : status_name (st));
					viol ("C04", sig, "QSexact_solver(%s) warm-started from this basis returns rval=%d status=%s, the LP is %s: %s", ai ? "PRIMAL" : "DUAL", rv, status_name (st), status_name (want), desc);
				}
				mpq_clear (v);
				mpq_QSfree_basis (wb);
				mpq_QSfree_prob (pw);
			}
			/* the direct rational simplex from the same basis (loaded through the API; a singular one is repaired by the library) */
			for (int ai = 0; ai < 2; ai++) {
				mpq_QSprob pw = qsx_build (L, ROUTE_LOAD, 0);
				if (!pw) continue;
				int st = 0, rv = mpq_QSload_basis (pw, &qb);
				if (!rv) rv = ai ? mpq_QSopt_primal (pw, &st) : mpq_QSopt_dual (pw, &st);
				STAT ("executions"); STAT ("warm_starts_direct");
				int want = T->status == TRUTH_OPTIMAL ? QS_LP_OPTIMAL : T->status == TRUTH_INFEASIBLE ? QS_LP_INFEASIBLE : QS_LP_UNBOUNDED;
				mpq_t v; mpq_init (v);
				tr_int (rv); tr_int (st);
				int known_dual = (!ai && want == QS_LP_UNBOUNDED && !rv && (st == QS_LP_INFEASIBLE || st == QS_LP_UNSOLVED));   /* KF-C04-dual-unbounded-* */
				if (known_dual) STAT ("skipped_dual_on_unbounded");
				else if (rv || st != want || (want == QS_LP_OPTIMAL && (mpq_QSget_objval (pw, &v) || !mpq_equal (v, T->val)))) {
					bdesc (L, cs, rs, desc, sizeof desc);
					char sig[96]; snprintf (sig, sizeof sig, "warmstart-direct-%s-truth-%s-got-%s", ai ? "primal" : "dual", status_name (want), rv ? "ERR" : status_name (st));
					char *a = q_str (v);
					viol ("C04", sig, "%s after mpq_QSload_basis of this basis returns rval=%d status=%s value=%s, the LP is %s: %s", ai ? "mpq_QSopt_primal" : "mpq_QSopt_dual", rv, status_name (st), a, status_name (want), desc);
					if (!rv && st == QS_LP_OPTIMAL) viol ("C01", "warmstart-direct-optimal-wrong", "%s after mpq_QSload_basis of this basis reports OPTIMAL with value %s, the LP is %s%s: %s", ai ? "mpq_QSopt_primal" : "mpq_QSopt_dual", a, status_name (want), want == QS_LP_OPTIMAL ? " with another value" : "", desc);
					free (a);
				}
				mpq_clear (v);
				mpq_QSfree_prob (pw);
			}
		}
		/* ---- C14: basis file round trip (also for singular bases: the file format does not care) */
		if (o_files) {
			int rv = mpq_QSwrite_basis (p, &qb, "b.bas");
			STAT ("executions");
			if (rv) { bdesc (L, cs, rs, desc, sizeof desc); viol ("C14", "write-basis-failed", "mpq_QSwrite_basis returned %d for a valid basis: %s", rv, desc); }
			else {
				QSbasis *R = mpq_QSread_basis (p, "b.bas");
				if (!R) { bdesc (L, cs, rs, desc, sizeof desc); viol ("C14", "read-basis-failed", "mpq_QSread_basis cannot read the file written for: %s", desc); }
				else {
					int bad = (R->nstruct != L->n || R->nrows != L->m);
					for (int j = 0; j < L->n && !bad; j++) {
						char a = cs[j], b2 = R->cstat[j];
						if (a == b2) continue;
						/* non-basic free columns may come back as free instead of at-lower and vice versa */
						if ((a == '3' && b2 == '0') || (a == '0' && b2 == '3' && S->loinf[j] && S->upinf[j])) continue;
						bad = 1;
					}
					for (int i = 0; i < L->m && !bad; i++) if (rs[i] != R->rstat[i]) bad = 1;
					tr_bytes (R->cstat, (size_t) L->n); tr_bytes (R->rstat, (size_t) L->m);
					if (bad) {
						bdesc (L, cs, rs, desc, sizeof desc);
						viol ("C14", "basis-roundtrip-differs", "basis read back is cstat=%.*s rstat=%.*s: %s", R->nstruct, R->cstat, R->nrows, R->rstat, desc);
					} else if (!B->singular) {
						BasisSol *B2 = obasis_solve (S, R->cstat, R->rstat);
						int same = B2->valid && !B2->singular;
						for (int j = 0; j < S->N && same; j++) if (!mpq_equal (B->z[j], B2->z[j])) same = 0;
						if (!same) { bdesc (L, cs, rs, desc, sizeof desc); viol ("C14", "basis-roundtrip-solution", "the basis read back has a different basic solution: %s", desc); }
						obasis_free (B2, S);
					}
					mpq_QSfree_basis (R);
					/* read_and_load must install exactly what read_basis returns */
					rv = mpq_QSread_and_load_basis (p, "b.bas");
					if (rv) { bdesc (L, cs, rs, desc, sizeof desc); viol ("C14", "read-and-load-failed", "mpq_QSread_and_load_basis failed on the file written for: %s", desc); }
					else {
						QSbasis *G = mpq_QSget_basis (p);
						if (!G || G->nstruct != L->n || G->nrows != L->m) { bdesc (L, cs, rs, desc, sizeof desc); viol ("C14", "read-and-load-lost", "after mpq_QSread_and_load_basis the problem has no basis of the right size: %s", desc); }
						if (G) mpq_QSfree_basis (G);
					}
				}
				unlink ("b.bas");
			}
		}
		if (nb == 1 && sample_wanted ()) { bdesc (L, cs, rs, desc, sizeof desc); sample ("%s%s%s -> singular=%d pfeas=%d dfeas=%d", label, label[0] ? ": " : "", desc, B->singular, B->pfeas, B->dfeas); }
		obasis_free (B, S);
	} while (benum_next (&E));
	stat_max ("bases_per_lp", nb);
	if (any_nonsing) STAT ("instances_nontrivial");
	mpq_clear (dob); mpq_clear (neg);
	if (T) truth_free (T);
	(void) why;
	mpq_QSfree_prob (p);
	sf_free (S);
	ref_free (L);
}
static void basis_finish (void) { qsx_stop (); }
Family fam_basis = { "basis", "every valid basis of every LP of a family: exact verdicts (C12) and basis-file round trip (C14); --opt fam=.. --opt files=0|1 --opt verify=0|1", basis_init, basis_count, basis_run, basis_finish, 120 };
