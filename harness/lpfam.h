/* Enumerated LP instance families and the configuration lattice. */
#ifndef VERIF_LPFAM_H
#define VERIF_LPFAM_H
#include "qsx.h"

typedef struct Alphabet {
	const char *name;
	int nmin, nmax, mmin, mmax;
	int ncoef; const char *coef[8];
	int nrhs; const char *rhs[8];
	int nkind; const char *kind[8];     /* "L","G","E","R0","R1","R5/2" */
	int nbnd; const char *bnd[10];      /* "0:inf","-inf:inf","0:1","-inf:0","1:1","-1:2","2:1" */
	int nobj; const char *obj[6];
	int canonical;                      /* keep only doubly-lex sorted members */
} Alphabet;

void lpfam_select (const char *name);         /* picks alphabet set by name, aborts if unknown */
long lpfam_count (void);
/* decode; returns NULL if the index is filtered out (non canonical) */
RefLP *lpfam_decode (long idx);
const char *lpfam_name (void);

/* targeted family T */
long tfam_count (void);
RefLP *tfam_decode (long idx, char *label, size_t ll);

/* configuration lattice */
typedef struct XCfg {
	Cfg c;
	int route, zeros;
	int warm;      /* 0 none, 1 optimal basis of a previous default solve, 2 slack basis, 3 basis of negated objective */
} XCfg;
void xcfg_default (XCfg * x);
int xcfg_set_count (const char *setname);     /* "default","k1","k2","full" */
void xcfg_get (const char *setname, int k, XCfg * x);
void xcfg_str (const XCfg * x, char *buf, size_t bl);
int xcfg_is_default_limits (const XCfg * x);
#endif
