/* Reference model and exact oracles.  Shares no code with the library under
 * test: plain dense GMP rationals, Gaussian elimination, Fourier-Motzkin. */
#ifndef VERIF_REF_H
#define VERIF_REF_H
#include <stdio.h>
#include <gmp.h>

#define REF_MIN 1
#define REF_MAX (-1)

typedef struct RefLP {
	int n, m;              /* structural columns, rows */
	int capn, capm;
	int objsense;          /* REF_MIN / REF_MAX */
	mpq_t *A;              /* capm x capn dense, A[r*capn+c] */
	mpq_t *rhs, *range;    /* per row */
	char *sense;           /* 'L','G','E','R' */
	mpq_t *obj, *lo, *up;  /* per col */
	char *loinf, *upinf;   /* 1 = infinite */
	char *isint;
	char **cname, **rname; /* may be NULL entries = unnamed */
} RefLP;

RefLP *ref_new (int objsense);
void ref_free (RefLP * L);
RefLP *ref_clone (const RefLP * L);
#define REF_A(L,r,c) ((L)->A[(size_t)(r)*(L)->capn+(c)])
int ref_add_col (RefLP * L, const mpq_t obj, const mpq_t lo, int loinf, const mpq_t up, int upinf, const char *name);
int ref_add_row (RefLP * L, char sense, const mpq_t rhs, const mpq_t range, const char *name);
void ref_del_rows (RefLP * L, const int *flags);
void ref_del_cols (RefLP * L, const int *flags);
void ref_set_cname (RefLP * L, int c, const char *s);
void ref_set_rname (RefLP * L, int r, const char *s);
int ref_nnz (const RefLP * L);
/* compare; what: bit0 data, bit1 names, bit2 intflags.  Returns 0 if equal, else writes reason */
int ref_cmp (const RefLP * a, const RefLP * b, int what, char *why, size_t whylen);
void ref_print (FILE * f, const RefLP * L);
/* textual canonical dump appended to a growing buffer (for state keys / transcripts) */
typedef struct { char *s; size_t len, cap; } SBuf;
void sb_init (SBuf * b);
void sb_free (SBuf * b);
void sb_reserve (SBuf * b, size_t n);
void sb_printf (SBuf * b, const char *fmt, ...) __attribute__ ((format (printf, 2, 3)));
void sb_mpq (SBuf * b, const mpq_t q);
void ref_dump (SBuf * b, const RefLP * L, int with_names);
int ref_wellformed (const RefLP * L); /* lo<=up and range>=0 */

/* ---- standard (equality) form: A z = b, lo <= z <= up, z = (x, logicals) ---- */
typedef struct SF {
	int N, m, n;           /* N = n + m */
	int objsense;
	mpq_t *A;              /* m x N */
	mpq_t *b, *c, *lo, *up;
	char *loinf, *upinf;
} SF;
SF *sf_from_ref (const RefLP * L);
void sf_free (SF * S);
#define SF_A(S,r,c) ((S)->A[(size_t)(r)*(S)->N+(c)])

/* O-OPT: z has N entries (structurals then logicals), pi has m entries, val objective.
 * rc may be NULL, else n entries that must equal c - A^T pi.  0 = accepted. */
int oopt_check (const SF * S, mpq_t * z, mpq_t * pi, mpq_t * rc, const mpq_t val, char *why, size_t whylen);
/* slack values implied by structural x: fills z[n..N) ; z[0..n) must be set */
void sf_fill_logicals (const SF * S, mpq_t * z);
/* O-FARKAS: 0 = y (or -y) proves infeasibility; *sign gets +1/-1 */
int ofarkas_check (const SF * S, mpq_t * y, int *sign, char *why, size_t whylen);

/* ---- O-REF: Fourier-Motzkin reference with self-checked witnesses ---- */
#define TRUTH_OPTIMAL 1
#define TRUTH_INFEASIBLE 2
#define TRUTH_UNBOUNDED 3
#define TRUTH_UNKNOWN 0     /* reference gave up (size cap) or self-check failed */
typedef struct Truth {
	int n;
	int status;
	mpq_t val;             /* optimum (in the LP's own sense) */
	mpq_t *x;              /* n entries: optimal / feasible point (OPT, UNB) */
	mpq_t *ray;            /* n entries: improving ray (UNB) */
	int selfcheck_failed;
	int gaveup;
	long peak_ineqs;
} Truth;
Truth *truth_new (int n);
void truth_free (Truth * T);
Truth *ref_solve (const RefLP * L);
int ref_point_feasible (const RefLP * L, mpq_t * x);

/* ---- O-BASIS: exact basic solution of a basis given as status arrays ---- */
/* cstat[j] in {'0' lower? ...} uses the library's public encoding:
 * QS_COL_BSTAT_LOWER '0', BASIC '1', UPPER '2', FREE '3'; rows: LOWER '0', BASIC '1', UPPER '2' */
typedef struct BasisSol {
	int valid;             /* statuses refer to existing finite bounds and count basics == m */
	int singular;
	int pfeas, dfeas;
	mpq_t *z;              /* N */
	mpq_t *pi;             /* m */
	mpq_t *d;              /* N reduced costs c - A^T pi */
	mpq_t pobj, dobj;
} BasisSol;
BasisSol *obasis_solve (const SF * S, const char *cstat, const char *rstat);
void obasis_free (BasisSol * B, const SF * S);

/* helpers */
char *q_str (const mpq_t q);   /* malloc'ed decimal string (GMP's own allocator may be the library's slab pool) */
char *z_str (const mpz_t z);
mpq_t *mpq_arr_new (int n);
void mpq_arr_free (mpq_t * a, int n);
/* dense exact Gaussian elimination: solves M x = r (k x k); returns 0 ok, 1 singular. M,r destroyed */
int gauss_solve (mpq_t * M, mpq_t * r, int k, mpq_t * x);
#endif
