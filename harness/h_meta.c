/* C15: equivalent formulations receive equivalent answers.
 * State space = formulations reachable from a base LP by compositions of a fixed
 * transformation alphabet, explored breadth-first to depth 2.  Base LPs: an enumerated
 * small family (truth known) or a deterministic catalogue of 24 larger structured LPs.
 * item = (base LP, first transformation or none); the second level is looped inside. */
#include <stdlib.h>
#include <string.h>
#include "lpfam.h"

/* ------------------------------------------------------------ catalogue */
static void setq (mpq_t q, long a, long b) { mpq_set_si (q, a, (unsigned long) b); mpq_canonicalize (q); }
static int addc (RefLP * L, long obj, long lo, int loinf, long up, int upinf)
{
	mpq_t o, l, u; mpq_init (o); mpq_init (l); mpq_init (u); char nm[24];
	setq (o, obj, 1); setq (l, lo, 1); setq (u, up, 1);
	snprintf (nm, sizeof nm, "x%d", L->n);
	int c = ref_add_col (L, o, l, loinf, u, upinf, nm);
	mpq_clear (o); mpq_clear (l); mpq_clear (u);
	return c;
}
static int addr (RefLP * L, char s, long rhs)
{
	mpq_t r, z; mpq_init (r); mpq_init (z); char nm[24];
	setq (r, rhs, 1); snprintf (nm, sizeof nm, "c%d", L->m);
	int i = ref_add_row (L, s, r, z, nm);
	mpq_clear (r); mpq_clear (z);
	return i;
}
#define NCAT 24
static const int cat_rows[4] = { 60, 150, 300, 450 };
static RefLP *catalogue (int idx, char *label, size_t ll)
{
	int kind = idx % 6, target = cat_rows[idx / 6];
	RefLP *L = ref_new (REF_MIN);
	static const char *kn[6] = { "transportation", "staircase", "denseblock+singletons", "setcover-relaxation", "potentials(free vars)", "degenerate-assignment" };
	switch (kind) {
	case 0: {                     /* transportation: s sources (L), d sinks (G); sink j is served by the sources i with (i+j) % q == 0 */
		int s = target / 3, d = target - s, q = s / 8 > 0 ? s / 8 : 1;
		int *ai = malloc (sizeof (int) * (size_t) s * d), *aj = malloc (sizeof (int) * (size_t) s * d), na = 0;
		for (int i = 0; i < s; i++) for (int j = 0; j < d; j++) if ((i + j) % q == 0) { ai[na] = i; aj[na] = j; na++; addc (L, 1 + (i * 7 + j * 13) % 10, 0, 0, 0, 1); }
		for (int i = 0; i < s; i++) { int r = addr (L, 'L', 20 + (i * 5) % 11); for (int a = 0; a < na; a++) if (ai[a] == i) setq (REF_A (L, r, a), 1, 1); }
		for (int j = 0; j < d; j++) { int r = addr (L, 'G', 3 + (j * 3) % 7); for (int a = 0; a < na; a++) if (aj[a] == j) setq (REF_A (L, r, a), 1, 1); }
		free (ai); free (aj);
		break;
	}
	case 1: {                     /* staircase: periods with production x_t, stock s_t, overtime y_t */
		int T = target / 3;
		for (int t = 0; t < T; t++) { addc (L, 2 + t % 3, 0, 0, 15, 0); addc (L, 1, 0, 0, 0, 1); addc (L, 5 + t % 2, 0, 0, 0, 1); }
		for (int t = 0; t < T; t++) {
			int r = addr (L, 'E', 8 + (t * 7) % 9);                       /* x_t + y_t + s_{t-1} - s_t = demand */
			setq (REF_A (L, r, 3 * t), 1, 1); setq (REF_A (L, r, 3 * t + 2), 1, 1); setq (REF_A (L, r, 3 * t + 1), -1, 1);
			if (t) setq (REF_A (L, r, 3 * (t - 1) + 1), 1, 1);
			r = addr (L, 'L', 30); setq (REF_A (L, r, 3 * t + 1), 1, 1); setq (REF_A (L, r, 3 * t), 1, 2);    /* stock capacity */
			r = addr (L, 'R', 0); mpq_set_si (L->range[r], 12, 1); setq (REF_A (L, r, 3 * t), 1, 1); setq (REF_A (L, r, 3 * t + 2), -1, 1); /* 0 <= x - y <= 12 */
		}
		break;
	}
	case 2: {                     /* dense 12x12 block + singleton rows */
		int nb = 12, ns = target - nb;
		for (int j = 0; j < nb + ns; j++) addc (L, -(1 + j % 5), 0, 0, 0, 1);
		for (int i = 0; i < nb; i++) { int r = addr (L, 'L', 100 + i); for (int j = 0; j < nb; j++) setq (REF_A (L, r, j), 1 + (i * j + i + j) % 7, 1 + (i + 2 * j) % 3); for (int j = nb; j < nb + ns; j += 5) setq (REF_A (L, r, j), 1, 1); }
		for (int j = 0; j < ns; j++) { int r = addr (L, 'L', 4 + j % 6); setq (REF_A (L, r, nb + j), 1 + j % 2, 1); }
		L->objsense = REF_MIN;
		break;
	}
	case 3: {                     /* set covering relaxation */
		int m = target, n = target + target / 2;
		for (int j = 0; j < n; j++) addc (L, 1 + (j * 3) % 4, 0, 0, 1, 0);
		for (int i = 0; i < m; i++) { int r = addr (L, 'G', 1); int any = 0; for (int j = 0; j < n; j++) if ((i * 31 + j * 17) % 23 < 3) { setq (REF_A (L, r, j), 1, 1); any = 1; } if (!any) setq (REF_A (L, r, i % n), 1, 1); }
		break;
	}
	case 4: {                     /* potentials: max sum b_i pi_i, pi_j - pi_i <= c_ij, pi free, pi_0 = 0 */
		int nodes = target / 4 + 2, arcs = target;
		L->objsense = REF_MAX;
		for (int i = 0; i < nodes; i++) { if (i == 0) addc (L, 0, 0, 0, 0, 0); else addc (L, (i % 3 == 0) ? 1 : 0, 0, 1, 0, 1); }
		for (int a = 0; a < arcs; a++) {
			int i = a % nodes, j = (a < nodes) ? (a + 1) % nodes : (a * 7 + 3) % nodes;
			if (i == j) j = (j + 1) % nodes;
			int r = addr (L, 'L', 1 + (a * 5) % 9); setq (REF_A (L, r, j), 1, 1); setq (REF_A (L, r, i), -1, 1);
		}
		break;
	}
	default: {                    /* assignment with many ties: worker i may take jobs i..i+7 (mod k) */
		int k = target / 2, w = k < 8 ? k : 8;
		for (int i = 0; i < k; i++) for (int t = 0; t < w; t++) addc (L, (i + t) % 3, 0, 0, 0, 1);
		for (int i = 0; i < k; i++) { int r = addr (L, 'E', 1); for (int t = 0; t < w; t++) setq (REF_A (L, r, i * w + t), 1, 1); }
		for (int j = 0; j < k; j++) { int r = addr (L, 'E', 1); for (int i = 0; i < k; i++) for (int t = 0; t < w; t++) if ((i + t) % k == j) setq (REF_A (L, r, i * w + t), 1, 1); }
		break;
	}
	}
	snprintf (label, ll, "catalogue[%d] %s rows=%d cols=%d", idx, kn[kind], L->m, L->n);
	return L;
}

/* ------------------------------------------------------------ transformations */
/* value relation: v_f = vs * v_0 + vo */
typedef struct { RefLP *L; mpq_t vs, vo; } Form;
enum { T_ROWREV, T_ROWROT, T_ROWSWAP, T_COLREV, T_COLROT, T_COLSWAP, T_ROWx2, T_ROWx13, T_ROWNEG, T_ROWNEGLAST, T_COLx2, T_COLx13, T_COLSHIFT1, T_COLSHIFTNEG, T_NEGOBJ, T_DUPROW, T_REDUNDANT, T_SPLITEQ, T_COLx2LAST, T_ROWx13LAST, T_COLNEG0, T_COLNEGALL, T_ROWx1e8, T_ROWLASTxNEG1e8, T__COUNT };
static const char *tname[T__COUNT] = { "reverse rows", "rotate rows", "swap rows 0,1", "reverse columns", "rotate columns", "swap columns 0,1", "row0 x 2", "row0 x 1/3", "row0 x -1 (sense flipped)", "last row x -1 (sense flipped)", "column0 scaled by 2", "column0 scaled by 1/3", "column0 shifted by +1", "last column shifted by -5/2", "negate objective, flip min/max", "duplicate row 0", "add redundant sum of two <=-rows", "split first equality", "last column scaled by 2", "last row x 1/3", "column0 negated (x = -x', bounds mirrored)", "all columns negated", "row0 x 10^8", "last row x -10^8 (sense flipped)" };

static void perm_rows (RefLP * L, const int *src)   /* new row i = old row src[i] */
{
	RefLP *C = ref_clone (L);
	for (int i = 0; i < L->m; i++) {
		int s = src[i];
		for (int c = 0; c < L->n; c++) mpq_set (REF_A (L, i, c), REF_A (C, s, c));
		mpq_set (L->rhs[i], C->rhs[s]); mpq_set (L->range[i], C->range[s]); L->sense[i] = C->sense[s]; ref_set_rname (L, i, C->rname[s]);
	}
	ref_free (C);
}
static void perm_cols (RefLP * L, const int *src)
{
	RefLP *C = ref_clone (L);
	for (int j = 0; j < L->n; j++) {
		int s = src[j];
		for (int r = 0; r < L->m; r++) mpq_set (REF_A (L, r, j), REF_A (C, r, s));
		mpq_set (L->obj[j], C->obj[s]); mpq_set (L->lo[j], C->lo[s]); mpq_set (L->up[j], C->up[s]);
		L->loinf[j] = C->loinf[s]; L->upinf[j] = C->upinf[s]; ref_set_cname (L, j, C->cname[s]);
	}
	ref_free (C);
}
static void scale_row (RefLP * L, int r, const mpq_t k)
{
	int neg = mpq_sgn (k) < 0;
	mpq_t ak; mpq_init (ak); mpq_abs (ak, k);
	if (neg && L->sense[r] == 'R') { mpq_add (L->rhs[r], L->rhs[r], L->range[r]); }   /* rhs' = -(rhs+range) */
	for (int c = 0; c < L->n; c++) mpq_mul (REF_A (L, r, c), REF_A (L, r, c), k);
	mpq_mul (L->rhs[r], L->rhs[r], k);
	mpq_mul (L->range[r], L->range[r], ak);
	if (neg) { if (L->sense[r] == 'L') L->sense[r] = 'G'; else if (L->sense[r] == 'G') L->sense[r] = 'L'; }
	mpq_clear (ak);
}
static void scale_col (RefLP * L, int c, const mpq_t k)   /* x = k x', k > 0 */
{
	for (int r = 0; r < L->m; r++) mpq_mul (REF_A (L, r, c), REF_A (L, r, c), k);
	mpq_mul (L->obj[c], L->obj[c], k);
	if (!L->loinf[c]) mpq_div (L->lo[c], L->lo[c], k);
	if (!L->upinf[c]) mpq_div (L->up[c], L->up[c], k);
}
static void neg_col (RefLP * L, int c)   /* x = -x': [lo,up] becomes [-up,-lo] */
{
	for (int r = 0; r < L->m; r++) mpq_neg (REF_A (L, r, c), REF_A (L, r, c));
	mpq_neg (L->obj[c], L->obj[c]);
	mpq_t t; mpq_init (t);
	mpq_set (t, L->lo[c]); mpq_neg (L->lo[c], L->up[c]); mpq_neg (L->up[c], t);
	int li = L->loinf[c]; L->loinf[c] = L->upinf[c]; L->upinf[c] = li;
	mpq_clear (t);
}
static void shift_col (Form * F, int c, const mpq_t d)    /* x = x' + d */
{
	RefLP *L = F->L; mpq_t t; mpq_init (t);
	for (int r = 0; r < L->m; r++) { mpq_mul (t, REF_A (L, r, c), d); mpq_sub (L->rhs[r], L->rhs[r], t); }
	if (!L->loinf[c]) mpq_sub (L->lo[c], L->lo[c], d);
	if (!L->upinf[c]) mpq_sub (L->up[c], L->up[c], d);
	/* objective loses the constant c_j d: v_f = v_prev - c_j d */
	mpq_mul (t, L->obj[c], d); mpq_sub (F->vo, F->vo, t);
	mpq_clear (t);
}
static int use_cat, use_T;
/* returns 0 if applied, 1 if not applicable */
static int transform (Form * F, int t)
{
	RefLP *L = F->L; int n = L->n, m = L->m;
	int *src = calloc ((size_t) (n > m ? n : m) + 2, sizeof (int));
	mpq_t k; mpq_init (k);
	int rv = 0;
	switch (t) {
	case T_ROWREV: if (m < 2) { rv = 1; break; } for (int i = 0; i < m; i++) src[i] = m - 1 - i; perm_rows (L, src); break;
	case T_ROWROT: if (m < 3) { rv = 1; break; } for (int i = 0; i < m; i++) src[i] = (i + 1) % m; perm_rows (L, src); break;
	case T_ROWSWAP: if (m < 2) { rv = 1; break; } for (int i = 0; i < m; i++) src[i] = i; src[0] = 1; src[1] = 0; perm_rows (L, src); break;
	case T_COLREV: if (n < 2) { rv = 1; break; } for (int i = 0; i < n; i++) src[i] = n - 1 - i; perm_cols (L, src); break;
	case T_COLROT: if (n < 3) { rv = 1; break; } for (int i = 0; i < n; i++) src[i] = (i + 1) % n; perm_cols (L, src); break;
	case T_COLSWAP: if (n < 2) { rv = 1; break; } for (int i = 0; i < n; i++) src[i] = i; src[0] = 1; src[1] = 0; perm_cols (L, src); break;
	case T_ROWx2: if (!m) { rv = 1; break; } mpq_set_si (k, 2, 1); scale_row (L, 0, k); break;
	case T_ROWx13: if (!m) { rv = 1; break; } mpq_set_si (k, 1, 3); scale_row (L, 0, k); break;
	case T_ROWx13LAST: if (m < 2) { rv = 1; break; } mpq_set_si (k, 1, 3); scale_row (L, m - 1, k); break;
	/* the two 10^8 scalings push tiny LPs through the whole precision ladder: only on the families run with the full ladder (T, catalogue) */
	case T_ROWx1e8: if (!m || !(use_T || use_cat)) { rv = 1; break; } mpq_set_si (k, 100000000, 1); scale_row (L, 0, k); break;
	case T_ROWLASTxNEG1e8: if (m < 2 || !(use_T || use_cat)) { rv = 1; break; } mpq_set_si (k, -100000000, 1); scale_row (L, m - 1, k); break;
	case T_ROWNEG: if (!m) { rv = 1; break; } mpq_set_si (k, -1, 1); scale_row (L, 0, k); break;
	case T_ROWNEGLAST: if (m < 2) { rv = 1; break; } mpq_set_si (k, -1, 1); scale_row (L, m - 1, k); break;
	case T_COLx2: if (!n) { rv = 1; break; } mpq_set_si (k, 2, 1); scale_col (L, 0, k); break;
	case T_COLx13: if (!n) { rv = 1; break; } mpq_set_si (k, 1, 3); scale_col (L, 0, k); break;
	case T_COLx2LAST: if (n < 2) { rv = 1; break; } mpq_set_si (k, 2, 1); scale_col (L, n - 1, k); break;
	case T_COLNEG0: if (!n) { rv = 1; break; } neg_col (L, 0); break;
	case T_COLNEGALL: if (n < 2) { rv = 1; break; } for (int c = 0; c < n; c++) neg_col (L, c); break;
	case T_COLSHIFT1: if (!n) { rv = 1; break; } mpq_set_si (k, 1, 1); shift_col (F, 0, k); break;
	case T_COLSHIFTNEG: if (n < 2) { rv = 1; break; } mpq_set_si (k, -5, 2); shift_col (F, n - 1, k); break;
	case T_NEGOBJ: for (int c = 0; c < n; c++) mpq_neg (L->obj[c], L->obj[c]); L->objsense = -L->objsense; mpq_neg (F->vs, F->vs); mpq_neg (F->vo, F->vo); break;
	case T_DUPROW: {
		if (!m) { rv = 1; break; }
		char nm[32]; snprintf (nm, sizeof nm, "dup%d", m);
		int r = ref_add_row (L, L->sense[0], L->rhs[0], L->range[0], nm);
		for (int c = 0; c < n; c++) mpq_set (REF_A (L, r, c), REF_A (L, 0, c));
		break;
	}
	case T_REDUNDANT: {
		int a = -1, b = -1;
		for (int i = 0; i < m; i++) if (L->sense[i] == 'L') { if (a < 0) a = i; else { b = i; break; } }
		if (b < 0) { rv = 1; break; }
		char nm[32]; snprintf (nm, sizeof nm, "red%d", m);
		mpq_add (k, L->rhs[a], L->rhs[b]);
		int r = ref_add_row (L, 'L', k, NULL, nm);
		for (int c = 0; c < n; c++) mpq_add (REF_A (L, r, c), REF_A (L, a, c), REF_A (L, b, c));
		break;
	}
	case T_SPLITEQ: {
		int e = -1; for (int i = 0; i < m; i++) if (L->sense[i] == 'E') { e = i; break; }
		if (e < 0) { rv = 1; break; }
		char nm[32]; snprintf (nm, sizeof nm, "spl%d", m);
		L->sense[e] = 'L';
		int r = ref_add_row (L, 'G', L->rhs[e], NULL, nm);
		for (int c = 0; c < n; c++) mpq_set (REF_A (L, r, c), REF_A (L, e, c));
		break;
	}
	}
	free (src); mpq_clear (k);
	return rv;
}

/* ------------------------------------------------------------ family */
static int depth2, maxcat, o_algo = DUAL_SIMPLEX, o_partial;
static void meta_init (void)
{
	const char *fam = opt_str ("fam", "S0q");
	use_cat = !strcmp (fam, "CAT");
	use_T = !strcmp (fam, "T");
	if (!use_cat && !use_T) lpfam_select (fam);
	depth2 = (int) opt_int ("depth", 1) >= 2;
	maxcat = (int) opt_int ("ncat", NCAT);
	o_algo = !strcmp (opt_str ("algo", "dual"), "primal") ? PRIMAL_SIMPLEX : DUAL_SIMPLEX;
	o_partial = (int) opt_int ("partial", 0);      /* multiple partial pricing (candidate buckets of 100): matters on the catalogue's wide LPs */
	qsx_start ();
}
static long meta_count (void) { return (use_cat ? (long) maxcat : use_T ? tfam_count () : lpfam_count ()) * (T__COUNT + 1); }

typedef struct { int rval, status; mpq_t val; } Ans;
static void solve_form (const RefLP * L, Ans * A)
{
	mpq_QSprob p = qsx_build (L, ROUTE_LOAD, 0);
	A->rval = -99; A->status = 0;
	if (!p) return;
	if (o_partial) { mpq_QSset_param (p, QS_PARAM_PRIMAL_PRICING, QS_PRICE_PMULTPARTIAL); mpq_QSset_param (p, QS_PARAM_DUAL_PRICING, QS_PRICE_DMULTPARTIAL); }
	if (o_partial == 2) { int st = 0; A->rval = o_algo == PRIMAL_SIMPLEX ? mpq_QSopt_primal (p, &st) : mpq_QSopt_dual (p, &st); A->status = st; }
	else A->rval = QSexact_solver (p, NULL, NULL, NULL, o_algo, &A->status);
	if (!A->rval && A->status == QS_LP_OPTIMAL) { if (mpq_QSget_objval (p, &A->val)) A->rval = -98; }
	STAT ("executions");
	{ char nm[48]; snprintf (nm, sizeof nm, "status_%s", A->rval ? "ERR" : status_name (A->status)); stat_dyn (nm, ""); }
	mpq_QSfree_prob (p);
}
static void check_pair (const char *label, const Ans * base, const Ans * f, const Form * F, const char *path)
{
	mpq_t expv; mpq_init (expv);
	tr_int (f->rval); tr_int (f->status);
	STAT ("formulations_compared");
	if (f->rval != base->rval || f->status != base->status) {
		char sig[96]; snprintf (sig, sizeof sig, "status-%s-vs-%s", base->rval ? "ERR" : status_name (base->status), f->rval ? "ERR" : status_name (f->status));
		viol ("C15", sig, "%s: base formulation rval=%d status=%s, after [%s] rval=%d status=%s", label, base->rval, status_name (base->status), path, f->rval, status_name (f->status));
	} else if (!f->rval && f->status == QS_LP_OPTIMAL) {
		mpq_mul (expv, F->vs, base->val); mpq_add (expv, expv, F->vo);
		tr_mpq (f->val);
		if (!mpq_equal (expv, f->val)) {
			char *a = q_str (f->val), *b = q_str (expv);
			viol ("C15", "value-differs", "%s: after [%s] the optimum is %s but the transformed base optimum is %s", label, path, a, b);
			free (a); free (b);
		}
	}
	mpq_clear (expv);
}
static void meta_run (long item)
{
	long bi = item / (T__COUNT + 1); int t1 = (int) (item % (T__COUNT + 1)) - 1;
	char label[200] = "";
	RefLP *L0;
	if (use_cat) L0 = catalogue ((int) bi, label, sizeof label);
	else if (use_T) { L0 = tfam_decode (bi, label, sizeof label); }
	else { L0 = lpfam_decode (bi); if (L0) { SBuf b; sb_init (&b); ref_dump (&b, L0, 0); snprintf (label, sizeof label, "LP{%.180s}", b.s); sb_free (&b); } }
	if (!L0) { STAT ("skipped_noncanonical"); return; }
	if (!ref_wellformed (L0)) { ref_free (L0); STAT ("skipped_illformed"); return; }
	if (t1 < 0) STAT ("instances");
	Ans base, a1, a2; mpq_init (base.val); mpq_init (a1.val); mpq_init (a2.val);
	solve_form (L0, &base);
	if (t1 < 0) {
		/* anchor the base answer on the reference truth when the LP is small */
		if (!use_cat) {
			Truth *T = ref_solve (L0);
			int want = T->status == TRUTH_OPTIMAL ? QS_LP_OPTIMAL : T->status == TRUTH_INFEASIBLE ? QS_LP_INFEASIBLE : T->status == TRUTH_UNBOUNDED ? QS_LP_UNBOUNDED : -1;
			if (want > 0 && (base.rval || base.status != want || (want == QS_LP_OPTIMAL && !mpq_equal (base.val, T->val))))
				viol ("C03", "meta-base-truth", "%s: truth %d but rval=%d status=%s", label, T->status, base.rval, status_name (base.status));
			truth_free (T);
		}
		if (base.rval || (base.status != QS_LP_OPTIMAL && base.status != QS_LP_INFEASIBLE && base.status != QS_LP_UNBOUNDED))
			viol ("C15", "base-not-definitive", "%s: base formulation returns rval=%d status=%s", label, base.rval, status_name (base.status));
		if (L0->m && base.status == QS_LP_OPTIMAL) STAT ("instances_nontrivial");
		if (sample_wanted ()) sample ("%s -> rval=%d status=%s", label, base.rval, status_name (base.status));
	} else {
		Form F; F.L = ref_clone (L0); mpq_init (F.vs); mpq_init (F.vo); mpq_set_si (F.vs, 1, 1);
		if (transform (&F, t1)) STAT ("transformation_not_applicable");
		else {
			solve_form (F.L, &a1);
			check_pair (label, &base, &a1, &F, tname[t1]);
			if (depth2) {
				for (int t2 = 0; t2 < T__COUNT; t2++) {
					Form G; G.L = ref_clone (F.L); mpq_init (G.vs); mpq_init (G.vo); mpq_set (G.vs, F.vs); mpq_set (G.vo, F.vo);
					if (!transform (&G, t2)) {
						char path[160]; snprintf (path, sizeof path, "%s ; %s", tname[t1], tname[t2]);
						solve_form (G.L, &a2);
						check_pair (label, &base, &a2, &G, path);
					}
					ref_free (G.L); mpq_clear (G.vs); mpq_clear (G.vo);
				}
			}
		}
		ref_free (F.L); mpq_clear (F.vs); mpq_clear (F.vo);
	}
	mpq_clear (base.val); mpq_clear (a1.val); mpq_clear (a2.val);
	ref_free (L0);
}
static void meta_finish (void) { qsx_stop (); }
Family fam_meta = { "meta", "metamorphic closure of equivalent formulations (C15); --opt fam=S0q|..|CAT --opt depth=1|2 --opt ncat=N", meta_init, meta_count, meta_run, meta_finish, 900 };
