/* C16b: the reduced-precision copies (QScopy_prob_mpq_dbl / _mpf) agree with the rational
 * problem entry by entry up to conversion error, with identical structure and parameters. */
#include <stdlib.h>
#include <string.h>
#include <math.h>
#include "lpfam.h"
#include "logging-private.h"

static const int precs[6] = { 64, 128, 192, 256, 512, 1024 };
static void lowp_init (void) { lpfam_select (opt_str ("fam", "SN1")); qsx_start (); }
static long lowp_count (void) { return lpfam_count (); }

static void ldesc (const RefLP * L, const char *tgt, char *buf, size_t bl)
{
	SBuf b; sb_init (&b); ref_dump (&b, L, 0);
	snprintf (buf, bl, "LP{%s} target=%s", b.s, tgt);
	sb_free (&b);
}
/* 0 ok */
static int chk_dbl (const mpq_t q, double d, int is_bound_upper, int is_bound_lower, char *why, size_t wl)
{
	if (is_bound_upper && q_is_pinf (q)) { if (d != dbl_ILL_MAXDOUBLE) { snprintf (why, wl, "+infinity mapped to %g", d); return 1; } return 0; }
	if (is_bound_lower && q_is_ninf (q)) { if (d != dbl_ILL_MINDOUBLE) { snprintf (why, wl, "-infinity mapped to %g", d); return 1; } return 0; }
	if (!mpq_sgn (q)) { if (d != 0.0) { snprintf (why, wl, "zero mapped to %g", d); return 1; } return 0; }
	if (!isfinite (d)) { snprintf (why, wl, "finite number mapped to %g", d); return 1; }
	mpq_t dq, diff, ulp; mpq_init (dq); mpq_init (diff); mpq_init (ulp);
	mpq_set_d (dq, d); mpq_sub (diff, q, dq); mpq_abs (diff, diff);
	double up = nextafter (d, INFINITY), dn = nextafter (d, -INFINITY);
	double u = fmax (up - d, d - dn);
	mpq_set_d (ulp, u);
	int bad = mpq_cmp (diff, ulp) > 0;
	if (bad) snprintf (why, wl, "double %.17g is more than one unit in the last place away from the rational", d);
	mpq_clear (dq); mpq_clear (diff); mpq_clear (ulp);
	return bad;
}
static int chk_mpf (const mpq_t q, mpf_t f, int prec, int is_bound_upper, int is_bound_lower, char *why, size_t wl)
{
	if (is_bound_upper && q_is_pinf (q)) { if (mpf_cmp (f, mpf_ILL_MAXDOUBLE)) { snprintf (why, wl, "+infinity not mapped to mpf_ILL_MAXDOUBLE"); return 1; } return 0; }
	if (is_bound_lower && q_is_ninf (q)) { if (mpf_cmp (f, mpf_ILL_MINDOUBLE)) { snprintf (why, wl, "-infinity not mapped to mpf_ILL_MINDOUBLE"); return 1; } return 0; }
	if (!mpq_sgn (q)) { if (mpf_sgn (f)) { snprintf (why, wl, "zero mapped to non-zero"); return 1; } return 0; }
	mpq_t fq, diff, tol; mpq_init (fq); mpq_init (diff); mpq_init (tol);
	mpq_set_f (fq, f); mpq_sub (diff, q, fq); mpq_abs (diff, diff);
	mpq_abs (tol, q); mpq_div_2exp (tol, tol, (unsigned) (prec - 1));
	int bad = mpq_cmp (diff, tol) > 0;
	if (bad) snprintf (why, wl, "mpf value differs from the rational by more than 2^(1-%d) relative", prec);
	mpq_clear (fq); mpq_clear (diff); mpq_clear (tol);
	return bad;
}

static void lowp_run (long item)
{
	RefLP *L = lpfam_decode (item);
	if (!L) { STAT ("skipped_noncanonical"); return; }
	STAT ("instances");
	char desc[6000], why[300];
	int n = L->n, m = L->m;
	mpq_QSprob p = qsx_build (L, ROUTE_ROWS, 0);
	if (!p) { viol ("C06", "build-failed", "cannot build"); ref_free (L); return; }
	mpq_QSset_param (p, QS_PARAM_PRIMAL_PRICING, QS_PRICE_PDEVEX);
	mpq_QSset_param (p, QS_PARAM_DUAL_PRICING, QS_PRICE_DDANTZIG);
	mpq_QSset_param (p, QS_PARAM_SIMPLEX_MAX_ITERATIONS, 4321);
	mpq_QSset_param (p, QS_PARAM_SIMPLEX_SCALING, 0);
	static const int params[5] = { QS_PARAM_PRIMAL_PRICING, QS_PARAM_DUAL_PRICING, QS_PARAM_SIMPLEX_DISPLAY, QS_PARAM_SIMPLEX_MAX_ITERATIONS, QS_PARAM_SIMPLEX_SCALING };
	int pv[5]; for (int k = 0; k < 5; k++) mpq_QSget_param (p, params[k], &pv[k]);
	/* rational view as the library stores it (sentinels included) */
	mpq_t *qlo = mpq_arr_new (n + 1), *qup = mpq_arr_new (n + 1), *qobj = mpq_arr_new (n + 1);
	int *rc = 0, *rb = 0, *ri = 0; mpq_t *rv = 0, *rh = 0, *rg = 0; char *se = 0;
	mpq_QSget_bounds (p, qlo, qup); mpq_QSget_obj (p, qobj);
	mpq_QSget_ranged_rows (p, &rc, &rb, &ri, &rv, &rh, &se, &rg, NULL);
	int nz = m ? rb[m - 1] + rc[m - 1] : 0;
	/* ---- double */
	{
		dbl_QSdata *d = QScopy_prob_mpq_dbl (p, "dcopy");
		STAT ("executions");
		if (!d) { ldesc (L, "dbl", desc, sizeof desc); viol ("C16", "dbl-copy-null", "QScopy_prob_mpq_dbl returned NULL: %s", desc); }
		else {
			int bad = 0;
			if (dbl_QSget_colcount (d) != n || dbl_QSget_rowcount (d) != m) { ldesc (L, "dbl", desc, sizeof desc); viol ("C16", "dbl-copy-shape", "copy has %d columns %d rows: %s", dbl_QSget_colcount (d), dbl_QSget_rowcount (d), desc); bad = 1; }
			if (!bad) {
				double *lo = calloc ((size_t) n + 1, sizeof (double)), *up = calloc ((size_t) n + 1, sizeof (double)), *ob = calloc ((size_t) n + 1, sizeof (double));
				int *c2 = 0, *b2 = 0, *i2 = 0; double *v2 = 0, *h2 = 0, *g2 = 0; char *s2 = 0; int os = 0, osq = 0;
				dbl_QSget_bounds (d, lo, up); dbl_QSget_obj (d, ob);
				dbl_QSget_objsense (d, &os); mpq_QSget_objsense (p, &osq);
				if (os != osq) { ldesc (L, "dbl", desc, sizeof desc); viol ("C16", "dbl-copy-objsense", "objective sense differs: %s", desc); }
				for (int j = 0; j < n; j++) {
					if (chk_dbl (qlo[j], lo[j], 0, 1, why, sizeof why) || chk_dbl (qup[j], up[j], 1, 0, why, sizeof why) || chk_dbl (qobj[j], ob[j], 0, 0, why, sizeof why)) { ldesc (L, "dbl", desc, sizeof desc); viol ("C16", "dbl-copy-column", "column %d: %s: %s", j, why, desc); }
				}
				if (m) {
					dbl_QSget_ranged_rows (d, &c2, &b2, &i2, &v2, &h2, &s2, &g2, NULL);
					for (int r = 0; r < m; r++) {
						if (c2[r] != rc[r] || b2[r] != rb[r] || s2[r] != se[r]) { ldesc (L, "dbl", desc, sizeof desc); viol ("C16", "dbl-copy-structure", "row %d: count/start/sense differ: %s", r, desc); continue; }
						if (chk_dbl (rh[r], h2[r], 0, 0, why, sizeof why) || (se[r] == 'R' && chk_dbl (rg[r], g2[r], 0, 0, why, sizeof why))) { ldesc (L, "dbl", desc, sizeof desc); viol ("C16", "dbl-copy-row", "row %d rhs/range: %s: %s", r, why, desc); }
						for (int k = 0; k < rc[r]; k++) {
							if (i2[rb[r] + k] != ri[rb[r] + k]) { ldesc (L, "dbl", desc, sizeof desc); viol ("C16", "dbl-copy-structure", "row %d entry %d column index differs: %s", r, k, desc); }
							else if (chk_dbl (rv[rb[r] + k], v2[rb[r] + k], 0, 0, why, sizeof why)) { ldesc (L, "dbl", desc, sizeof desc); viol ("C16", "dbl-copy-coef", "A[%d][%d]: %s: %s", r, ri[rb[r] + k], why, desc); }
						}
					}
					if (c2) dbl_QSfree (c2); if (b2) dbl_QSfree (b2); if (i2) dbl_QSfree (i2); if (s2) dbl_QSfree (s2);
					dbl_EGlpNumFreeArray (v2); dbl_EGlpNumFreeArray (h2); dbl_EGlpNumFreeArray (g2);
				}
				for (int k = 0; k < 5; k++) { int v = -1; dbl_QSget_param (d, params[k], &v); if (v != pv[k]) { ldesc (L, "dbl", desc, sizeof desc); viol ("C16", "dbl-copy-param", "parameter %d is %d in the copy, %d in the original: %s", params[k], v, pv[k], desc); } }
				free (lo); free (up); free (ob);
			}
			dbl_QSfree_prob (d);
		}
	}
	/* ---- mpf at every precision of the ladder alphabet */
	for (int pi = 0; pi < 6; pi++) {
		int prec = precs[pi];
		char tgt[32]; snprintf (tgt, sizeof tgt, "mpf@%d", prec);
		QSexact_set_precision ((unsigned) prec);
		mpf_QSdata *f = QScopy_prob_mpq_mpf (p, "fcopy");
		STAT ("executions");
		if (!f) { ldesc (L, tgt, desc, sizeof desc); viol ("C16", "mpf-copy-null", "QScopy_prob_mpq_mpf returned NULL: %s", desc); continue; }
		if (mpf_QSget_colcount (f) != n || mpf_QSget_rowcount (f) != m) { ldesc (L, tgt, desc, sizeof desc); viol ("C16", "mpf-copy-shape", "copy has wrong shape: %s", desc); mpf_QSfree_prob (f); continue; }
		mpf_t *lo = mpf_EGlpNumAllocArray (n + 1), *up = mpf_EGlpNumAllocArray (n + 1), *ob = mpf_EGlpNumAllocArray (n + 1);
		mpf_QSget_bounds (f, lo, up); mpf_QSget_obj (f, ob);
		for (int j = 0; j < n; j++)
			if (chk_mpf (qlo[j], lo[j], prec, 0, 1, why, sizeof why) || chk_mpf (qup[j], up[j], prec, 1, 0, why, sizeof why) || chk_mpf (qobj[j], ob[j], prec, 0, 0, why, sizeof why)) { ldesc (L, tgt, desc, sizeof desc); viol ("C16", "mpf-copy-column", "column %d: %s: %s", j, why, desc); }
		if (m) {
			int *c2 = 0, *b2 = 0, *i2 = 0; mpf_t *v2 = 0, *h2 = 0, *g2 = 0; char *s2 = 0;
			mpf_QSget_ranged_rows (f, &c2, &b2, &i2, &v2, &h2, &s2, &g2, NULL);
			for (int r = 0; r < m; r++) {
				if (c2[r] != rc[r] || b2[r] != rb[r] || s2[r] != se[r]) { ldesc (L, tgt, desc, sizeof desc); viol ("C16", "mpf-copy-structure", "row %d: count/start/sense differ: %s", r, desc); continue; }
				if (chk_mpf (rh[r], h2[r], prec, 0, 0, why, sizeof why) || (se[r] == 'R' && chk_mpf (rg[r], g2[r], prec, 0, 0, why, sizeof why))) { ldesc (L, tgt, desc, sizeof desc); viol ("C16", "mpf-copy-row", "row %d rhs/range: %s: %s", r, why, desc); }
				for (int k = 0; k < rc[r]; k++) {
					if (i2[rb[r] + k] != ri[rb[r] + k]) { ldesc (L, tgt, desc, sizeof desc); viol ("C16", "mpf-copy-structure", "row %d entry %d column index differs: %s", r, k, desc); }
					else if (chk_mpf (rv[rb[r] + k], v2[rb[r] + k], prec, 0, 0, why, sizeof why)) { ldesc (L, tgt, desc, sizeof desc); viol ("C16", "mpf-copy-coef", "A[%d][%d]: %s: %s", r, ri[rb[r] + k], why, desc); }
				}
			}
			if (c2) mpf_QSfree (c2); if (b2) mpf_QSfree (b2); if (i2) mpf_QSfree (i2); if (s2) mpf_QSfree (s2);
			mpf_EGlpNumFreeArray (v2); mpf_EGlpNumFreeArray (h2); mpf_EGlpNumFreeArray (g2);
		}
		for (int k = 0; k < 5; k++) { int v = -1; mpf_QSget_param (f, params[k], &v); if (v != pv[k]) { ldesc (L, tgt, desc, sizeof desc); viol ("C16", "mpf-copy-param", "parameter %d is %d in the copy, %d in the original: %s", params[k], v, pv[k], desc); } }
		mpf_EGlpNumFreeArray (lo); mpf_EGlpNumFreeArray (up); mpf_EGlpNumFreeArray (ob);
		mpf_QSfree_prob (f);
	}
	QSexact_set_precision (128);
	if (nz) STAT ("instances_nontrivial");
	if (sample_wanted ()) { ldesc (L, "dbl+mpf@{64..1024}", desc, sizeof desc); sample ("%s", desc); }
	if (rc) mpq_QSfree (rc); if (rb) mpq_QSfree (rb); if (ri) mpq_QSfree (ri); if (se) mpq_QSfree (se);
	mpq_EGlpNumFreeArray (rv); mpq_EGlpNumFreeArray (rh); mpq_EGlpNumFreeArray (rg);
	mpq_arr_free (qlo, n + 1); mpq_arr_free (qup, n + 1); mpq_arr_free (qobj, n + 1);
	mpq_QSfree_prob (p);
	ref_free (L);
}
static void lowp_finish (void) { qsx_stop (); }
Family fam_lowp = { "lowp", "reduced-precision copies QScopy_prob_mpq_dbl/_mpf vs the rational problem (C16); --opt fam=SN1", lowp_init, lowp_count, lowp_run, lowp_finish, 60 };
