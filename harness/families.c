#include "engine.h"
extern Family fam_lp, fam_hist;
Family *g_families[] = { &fam_lp, &fam_hist, 0 };
