#include "engine.h"
extern Family fam_lp, fam_hist, fam_inv, fam_basis, fam_copy, fam_lowp, fam_meta, fam_wr, fam_num, fam_rd, fam_esol, fam_grow, fam_factor, fam_binv, fam_rdr, fam_cpar;
Family *g_families[] = { &fam_lp, &fam_hist, &fam_inv, &fam_basis, &fam_copy, &fam_lowp, &fam_meta, &fam_wr, &fam_num, &fam_rd, &fam_esol, &fam_grow, &fam_factor, &fam_binv, &fam_rdr, &fam_cpar, 0 };
