#include "engine.h"
extern Family fam_lp;
Family *g_families[] = { &fam_lp, 0 };
