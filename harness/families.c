#include "engine.h"
extern Family fam_lp, fam_hist, fam_inv;
Family *g_families[] = { &fam_lp, &fam_hist, &fam_inv, 0 };
