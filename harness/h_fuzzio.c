/* E-IO: exhaustive enumeration of finite neighbourhoods of input files (C11;
 * C18 / C20 oracles ride along).  Not random: every item space below is an
 * integer-indexed finite set.
 *   --opt mode=tok   all sequences of <= k alphabet tokens after each valid prefix (fmt=lp|mps|bas)
 *   --opt mode=mut   every single token edit and byte edit of every embedded base file (radius=2: token-edit pairs in a 6-token window)
 *   --opt mode=trunc every byte prefix of every base file (comp=gz|bz2: of the compressed stream)
 *   --opt mode=long  names/numbers/lines around the internal buffer sizes, sign runs, control bytes
 *   --opt via=file|reader  mpq_QSread_prob, or mpq_QSget_prob through the line-reader + error-collector API
 *   --opt fmt=lp|mps|bas|all   --opt base=N (one base file)   --opt solve=0|1 */
#define _GNU_SOURCE
#include <stdlib.h>
#include <string.h>
#include <stdio.h>
#include <unistd.h>
#include <errno.h>
#include <zlib.h>
#include <bzlib.h>
#include "qsx.h"

enum { F_LP = 0, F_MPS = 1, F_BAS = 2, F_ALL = 3 };
static const char *fmt_name[] = { "lp", "mps", "bas", "all" };

/* ------------------------------------------------------------ byte buffer */
typedef struct { unsigned char *d; size_t n, cap; } Buf;
static void b_add (Buf * b, const void *p, size_t n)
{
	if (b->n + n + 1 > b->cap) { b->cap = (b->n + n + 1) * 2 + 256; b->d = realloc (b->d, b->cap); }
	memcpy (b->d + b->n, p, n); b->n += n; b->d[b->n] = 0;
}
static void b_str (Buf * b, const char *s) { b_add (b, s, strlen (s)); }
static void b_rep (Buf * b, const char *s, size_t times) { for (size_t i = 0; i < times; i++) b_str (b, s); }
static void b_fill (Buf * b, int c, size_t n) { char ch = (char) c; for (size_t i = 0; i < n; i++) b_add (b, &ch, 1); }

/* ------------------------------------------------------------ base files */
typedef struct { const char *name; int fmt; const char *text; } Base;
static const Base bases[] = {
	{ "lp-plain", F_LP,
		"\\ plain: named rows, all three senses\nProblem plain\nMaximize\n obj: 3 x + 2 y - 4 z\nSubject To\n c1: 3 x + 2 y + z <= 12\n c2: 5 x + y >= 10\n"
		" c3: x - z = -1\nBounds\n x <= 10\n 0 <= y <= 5\n 1 <= z\nEnd\n" },
	{ "lp-unnamed", F_LP,
		"Minimize\n 2.5 x1 + 1/3 x2 + 1e2 x3\nst\n x1 + x2 + x3 >= 1\n x1 - 0.5 x2 <= 4\n - x1 + 2 x3 = 0\n x2 + x3 <= 7/2\n 3 x1 + 1.5e-1 x3 => 0.25\n x2 =< 100\nend\n" },
	{ "lp-bounds", F_LP,
		"\\ bounds: every bound form\nMin\n cost: x + y + z + w + v + u + t\nSubject To\n r1: x + y + z + t >= -4\n r2: w + v - u <= 20\nBounds\n -inf <= x <= 4\n"
		" y free\n z = 3\n -5 <= w\n v <= +infinity\n 2 <= u <= 8\n -infinity <= t <= inf\n w <= 1/2\nEnd\n" },
	{ "lp-integer", F_LP,
		"Problem knap\nMaximize\n value: 5 a + 4 b + 3 c + 7 d\nSubject To\n weight: 2 a + 3 b + c + 4 d <= 10\n count: a + b + c + d <= 3\n link: a - d >= 0\n"
		"Bounds\n a <= 1\n b <= 1\n 0 <= c <= 4\n d <= 2\nInteger\n a b\n c\n d\nEnd\n" },
	{ "lp-contin", F_LP,
		"\\ continuation lines, glued coefficients, signed coefficients\nMAXIMIZE\n profit: 3x1 + 2x2\n   + 4x3 -\n   x4\nSUBJECT TO\n cap: x1 + x2 + x3\n      + x4 <= 40\n"
		" mix: 2 x1 - 3 x2 + -1 x3 >=\n      -5\n c3: x1\n   - x4\n   =\n   0\nBOUNDS\n x1 <= 40\n 0 <= x2\n      <= 15\nEND\n" },
	{ "lp-comments", F_LP,
		"\\* odd layout *\\\nProblem odd_1 \\ trailing comment\nminimum \\ sense\n\\ comment line between\n Obj_1: x_1 + 2 y.2 \\ objective\n\t+ 3 z#3\nst \\ constraints\n"
		" R.1: x_1 + y.2 >= 1 \\ first\n\\ comment inside section\n\n R_2: y.2 + z#3 <= 9\n x_1 - z#3 >= -2.50e+0\nbound\n x_1 <= 1e1\n y.2 <= 2.\nINTEGER\n z#3\nend\n" },
	{ "mps-basic", F_MPS,
		"NAME          basic\nROWS\n N  cost\n L  lim1\n G  lim2\n E  myeqn\nCOLUMNS\n    x         cost         1   lim1         1\n    x         lim2         1\n"
		"    y         cost         2   lim1         1\n    y         myeqn       -1\n    z         cost        -1   myeqn        1\nRHS\n    rhs       lim1         4   lim2         1\n"
		"    rhs       myeqn        7\nBOUNDS\n UP bnd       x            4\n LO bnd       y           -1\n UP bnd       y            1\nENDATA\n" },
	{ "mps-ranges", F_MPS,
		"NAME ranges\nOBJSENSE\n    MAX\nROWS\n N obj\n L r1\n G r2\n E r3\n E r4\nCOLUMNS\n a obj 1 r1 1\n a r2 1 r3 1\n b obj 2 r1 1\n b r4 1\n c obj -1 r2 1\n c r3 -1 r4 2\n"
		"RHS\n rhs r1 10 r2 -3\n rhs r3 -2 r4 4\n rhs obj 5\nRANGES\n rng r1 4 r2 2.5\n rng r3 -3 r4 3\nBOUNDS\n UP bnd a 8\n UP bnd b 6\n UP bnd c 5\nENDATA\n" },
	{ "mps-bounds", F_MPS,
		"* all bound types, integer markers\nNAME bounds\nROWS\n N obj\n L c1\n G c2\nCOLUMNS\n M1 'MARKER' 'INTORG'\n i1 obj 1 c1 1\n i2 obj 1 c2 1\n M2 'MARKER' 'INTEND'\n"
		" x1 obj 1 c1 1\n x2 obj -1 c1 1\n x3 obj 1 c2 1\n x4 obj 1 c1 1\n x5 obj 1 c2 1\n x6 obj 2 c1 1\n x7 obj 1 c1 -1\nRHS\n rhs c1 20 c2 1\nBOUNDS\n UP bnd x1 4\n LO bnd x2 -3\n"
		" FX bnd x3 2\n FR bnd x4\n MI bnd x5\n UP bnd x5 1e1\n PL bnd x6\n BV bnd i1\n LI bnd i2 1\n UI bnd i2 7\n LO bnd x7 -inf\n UP bnd x7 1/4\nENDATA\n" },
	{ "mps-odd", F_MPS,
		"* comments, negative numbers, OBJSENSE MIN, OBJNAME, blank set names\nNAME odd $ not a comment here\nOBJSENSE\n MIN\nOBJNAME\n second\nROWS\n N first\n N second\n G row.1\n"
		" L row_2\n* comment between records\nCOLUMNS\n col#1 second 1.5 row.1 1\n col#1 row_2 -2.5e-1\n col#2 second -1/2 row.1 1\n col#2 row_2 1\n col#2 first 9\n"
		"RHS\n row.1 -1 $ comment after two fields\n row_2 3\nRANGES\n row_2 2\nBOUNDS\n UP col#1 10 $ comment\n MI col#2\nENDATA\n" },
	{ "mps-sos", F_MPS,
		"NAME sos\nREFROW\n ref\nROWS\n N obj\n N ref\n L c1\n G c2\nCOLUMNS\n S1 SOS1 'MARKER' 'SOSORG'\n x obj 1 ref 1\n x c1 1\n y obj 2 ref 2\n y c1 1 c2 1\n S1 SOS1 'MARKER' 'SOSEND'\n"
		" S2 SOS2 'MARKER' 'SOSORG'\n u obj 1 ref 3\n u c2 1\n v obj 1 ref 5\n v c1 1\n w ref 4 c2 1\n S2 SOS2 'MARKER' 'SOSEND'\n z obj 1 c1 1\nRHS\n rhs c1 4 c2 1\nBOUNDS\n UP bnd z 3\nENDATA\n" },
	{ "mps-sos-int", F_MPS,
		"* integer markers followed by an SOS set: one edited marker makes SOS members integer\nNAME sosint\nROWS\n N obj\n L c1\n G c2\nCOLUMNS\n M1 'MARKER' 'INTORG'\n i1 obj 1 c1 1\n i2 obj 2 c2 1\n M2 'MARKER' 'INTEND'\n"
		" S1 SOS1 'MARKER' 'SOSORG'\n x obj 1 c1 1\n y obj 2 c1 1 c2 1\n z obj 3 c2 1\n S1 SOS1 'MARKER' 'SOSEND'\n w obj 1 c1 1\nRHS\n rhs c1 4 c2 1\nBOUNDS\n UP bnd i1 3\n UP bnd i2 3\n UP bnd w 3\nENDATA\n" },
	{ "bas-xuxl", F_BAS,
		"* basis written for the 2x2 reference problem: both structurals basic\nNAME    verif\n XU x c1\n XL y c2\nENDATA\n" },
	{ "bas-ulll", F_BAS,
		"* basis with non-basic structurals, one at its upper bound, rows stay basic\n* second comment line\nNAME    verif\n UL x\n LL y\n XU y c1\nENDATA\n" },
};
#define NBASE ((int) (sizeof bases / sizeof bases[0]))

/* ------------------------------------------------------------ alphabets / prefixes */
static const char *alpha_lp[] = { "max", "min", "st", "bounds", "integer", "end", "obj:", "c1:", "x", "y", "3", "1/0", "1e9999", "+", "-", "<=", ">=", "=",
	"free", "inf", "\n", "\\c", ":", "junk" };
static const char *alpha_mps[] = { "NAME", "ROWS", "COLUMNS", "RHS", "RANGES", "BOUNDS", "ENDATA", "OBJSENSE", "MAX", "N", "L", "G", "E", "UP", "LO", "FX", "FR", "MI", "PL", "BV",
	"MARKER", "'MARKER'", "'INTORG'", "'INTEND'", "'SOSORG'", "'SOSEND'", "S1", "r1", "c1", "1", "-2.5", "1/0", "\n" };
static const char *alpha_bas[] = { "NAME", "XU", "XL", "UL", "LL", "ENDATA", "x", "y", "c1", "c2", "\n" };
static const char **alpha_of[3] = { alpha_lp, alpha_mps, alpha_bas };
static const int alpha_n[3] = { 24, 33, 11 };
static const char *pre_lp[] = { "", "min x\nst\n", "max x + y\nst\nc1: x + y <= 4\n", "min x\nst\nc1: x >= 1\nbounds\n" };
#define MPS_R "NAME p\nROWS\n N obj\n L r1\n G r2\n"
#define MPS_C MPS_R "COLUMNS\n c1 obj 1 r1 1\n c1 r2 1\n c2 obj 2 r1 1\n"
static const char *pre_mps[] = { "", "NAME p\nROWS\n", MPS_R "COLUMNS\n", MPS_C "RHS\n", MPS_C "RHS\n rhs r1 4 r2 1\nRANGES\n", MPS_C "RHS\n rhs r1 4 r2 1\nBOUNDS\n",
	MPS_R "COLUMNS\n S1 s1 'MARKER' 'SOSORG'\n",
	"NAME p\nROWS\n N obj\n N obj2\n L r1\n G r2\nCOLUMNS\n" };     /* a second free row: columns that live only in it are dropped by the reader */
static const char *pre_bas[] = { "", "NAME verif\n", "NAME verif\n XU x c1\n" };
static const char **pre_of[3] = { pre_lp, pre_mps, pre_bas };
static const int pre_n[3] = { 4, 8, 3 };
/* MPS / basis tokens that belong in column 1 (everything else is indented by the renderer) */
static int is_key (const char *t)
{
	static const char *keys[] = { "NAME", "ROWS", "COLUMNS", "RHS", "RANGES", "BOUNDS", "ENDATA", "OBJSENSE", 0 };
	for (int i = 0; keys[i]; i++) if (!strcmp (t, keys[i])) return 1;
	return 0;
}

/* ------------------------------------------------------------ options / item state */
enum { M_TOK, M_MUT, M_TRUNC, M_LONG, M_OWN, M_REC };
static int o_mode, o_fmt, o_k, o_radius, o_comp, o_via, o_base, o_solve;
static long n_items;
static Buf g_in;                /* the input bytes of the current item */
static char g_desc[400];        /* mode, base file, edit */
static int g_attr;              /* leak-attribution pass: same read without the solve, no counters, no records */
static int g_expect_ok;         /* unchanged base file: must be accepted */
static RefLP *g_basM;           /* the fixed 2x2 problem basis files are read against */
static mpq_t g_basopt;

typedef struct { const char *ws; int wl; const char *tx; int tl; } Tok;
static Tok *b_tok[NBASE]; static int b_ntok[NBASE]; static size_t b_len[NBASE];
static Buf b_comp[NBASE];       /* compressed image (mode=trunc comp=..) */
static long b_cum[NBASE + 1];   /* item offsets per base (mut / trunc) */
static long seq_count (int a, int k) { long s = 0, p = 1; for (int j = 0; j <= k; j++) { s += p; p *= a; } return s; }
static int base_selected (int b) { return (o_fmt == F_ALL || bases[b].fmt == o_fmt) && (o_base < 0 || o_base == b); }

static void tokenize (int b)
{
	const char *s = bases[b].text; int cap = 16, n = 0; Tok *t = malloc (sizeof (Tok) * (size_t) cap);
	while (*s) {
		Tok k; k.ws = s; while (*s == ' ' || *s == '\t') s++;
		k.wl = (int) (s - k.ws); k.tx = s;
		if (*s == '\n') s++; else while (*s && *s != ' ' && *s != '\t' && *s != '\n') s++;
		k.tl = (int) (s - k.tx);
		if (n == cap) { cap *= 2; t = realloc (t, sizeof (Tok) * (size_t) cap); }
		if (k.tl || k.wl) t[n++] = k;
	}
	b_tok[b] = t; b_ntok[b] = n;
}
static void compress_base (int b)
{
	const char *s = bases[b].text; size_t len = strlen (s); Buf *o = &b_comp[b];
	o->n = 0; o->cap = len * 2 + 1024; o->d = malloc (o->cap);
	if (o_comp == 1) {
		z_stream z; memset (&z, 0, sizeof z);
		if (deflateInit2 (&z, 9, Z_DEFLATED, 15 + 16, 8, Z_DEFAULT_STRATEGY) != Z_OK) abort ();
		z.next_in = (unsigned char *) s; z.avail_in = (unsigned) len; z.next_out = o->d; z.avail_out = (unsigned) o->cap;
		if (deflate (&z, Z_FINISH) != Z_STREAM_END) abort ();
		o->n = z.total_out; deflateEnd (&z);
	} else {
		unsigned dl = (unsigned) o->cap;
		if (BZ2_bzBuffToBuffCompress ((char *) o->d, &dl, (char *) s, (unsigned) len, 9, 0, 0) != BZ_OK) abort ();
		o->n = dl;
	}
}

/* ------------------------------------------------------------ mode=long item table */
typedef struct { int fmt; const char *tpl; int kind; long a, b; } LongItem;   /* '@' in tpl is replaced by the generated string */
enum { G_NAME, G_NUM, G_SIGNS, G_CTRL, G_LINE, G_MANY };
/* many rows / columns: the readers' tables start at 100 entries and double */
static const long many_cnt[] = { 99, 100, 101, 199, 200, 201, 399, 400, 401 };
#define NMANYPAT 4
static LongItem *g_long; static long n_long;
static const long name_len[] = { 126, 127, 128, 255, 256, 131070, 131071, 131072, 131073 };
static const int num_dig[] = { 1, 17, 40, 400, 4000 };
#define NNUMFORM 14
static const unsigned char ctrl_bytes[] = { 0x00, 0x01, 0x08, 0x09, 0x0b, 0x0c, 0x0d, 0x1a, 0x1b, 0x7f, 0x80, 0xff };
static const char *sign_runs[] = { "+ - + - ", "- - ", "+ + ", "-+-+", "+-", "- + 3 - ", "-\n-\n", "*1000" };
static const char *tn_lp[] = {                   /* name positions, LP */
	"Problem @\nmin x\nst\nc1: x >= 1\nend\n", "min @: x\nst\nc1: x >= 1\nend\n", "min @\nst\nc1: @ >= 1\nend\n", "min x\nst\n@: x >= 1\nend\n",
	"min x\nst\nc1: x >= 1\nbounds\n @ <= 4\nend\n", "min x\nst\nc1: x >= 1\ninteger\n @\nend\n", "min x\nst\nc1: x >= 1\n@\n", "@ x\nst\nc1: x >= 1\nend\n",
	"min x\nst\nc1: x @ 1\nend\n", "min x\nst\nc1: x >= 1\nbounds\n x @\nend\n", "min x \\@\nst\nc1: x >= 1\nend\n",
	"min @\nst\nc1: @ >= 1\nbounds\n 5 <= @ <= 4\nend\n", "min x\nst\n@: x >= 1\n@: x <= 2\nend\n" };
static const char *tv_lp[] = {                   /* number positions, LP */
	"min @ x\nst\nc1: x >= 1\nend\n", "min x\nst\nc1: @ x >= 1\nend\n", "min x\nst\nc1: x >= @\nend\n", "min x\nst\nc1: x >= 1\nbounds\n x <= @\nend\n",
	"min x\nst\nc1: x >= 1\nbounds\n @ <= x\nend\n", "min x\nst\nc1: x >= 1\nbounds\n x = @\nend\n" };
static const char *ts_lp[] = {                   /* sign-run positions, LP */
	"min @x\nst\nc1: x >= 1\nend\n", "min x\nst\nc1: x @x >= 1\nend\n", "min x\nst\nc1: x >= @3\nend\n", "min x\nst\nc1: x >= 1\nbounds\n @inf <= x\nend\n",
	"min x\nst\nc1: x >= 1\nbounds\n x <= @4\nend\n" };
#define MPS_H "NAME p\nROWS\n N obj\n G r1\nCOLUMNS\n"
static const char *tn_mps[] = {
	"NAME @\nROWS\n N obj\n G r1\nCOLUMNS\n x obj 1 r1 1\nRHS\n rhs r1 1\nENDATA\n", "NAME p\nROWS\n N obj\n G @\nCOLUMNS\n x obj 1 @ 1\nRHS\n rhs @ 1\nENDATA\n",
	MPS_H " @ obj 1 r1 1\nRHS\n rhs r1 1\nBOUNDS\n UP bnd @ 4\nENDATA\n", MPS_H " x obj 1 @ 1\nENDATA\n", MPS_H " x obj 1 r1 1\nRHS\n @ r1 1\nENDATA\n",
	MPS_H " x obj 1 r1 1\nBOUNDS\n @ bnd x 4\nENDATA\n", MPS_H " x obj 1 r1 1\nBOUNDS\n UP @ x 4\nENDATA\n", MPS_H " x obj 1 r1 1\nBOUNDS\n UP bnd @ 4\nENDATA\n",
	MPS_H " x obj 1 r1 1\n@\nENDATA\n", "NAME p\nOBJSENSE\n @\nROWS\n N obj\n G r1\nCOLUMNS\n x obj 1 r1 1\nENDATA\n", "NAME p\nROWS\n @ obj\n G r1\nCOLUMNS\n x obj 1 r1 1\nENDATA\n",
	MPS_H " x obj 1 r1 1\nRANGES\n @ r1 1\nENDATA\n", MPS_H " m 'MARKER' @\n x obj 1 r1 1\nENDATA\n", MPS_H " x obj 1 r1 1 $@\nENDATA\n",
	MPS_H " @ obj 1 r1 1\nBOUNDS\n UP bnd @ 4\n LO bnd @ 5\nENDATA\n", "NAME p\nROWS\n N obj\n G @\n L @\nCOLUMNS\n x obj 1 @ 1\nENDATA\n" };
static const char *tv_mps[] = {
	MPS_H " x obj @ r1 1\nENDATA\n", MPS_H " x obj 1 r1 @\nENDATA\n", MPS_H " x obj 1 r1 1\nRHS\n rhs r1 @\nENDATA\n", MPS_H " x obj 1 r1 1\nRANGES\n rng r1 @\nENDATA\n",
	MPS_H " x obj 1 r1 1\nBOUNDS\n UP bnd x @\nENDATA\n", MPS_H " x obj 1 r1 1\nBOUNDS\n LO x @\nENDATA\n" };
static const char *tn_bas[] = { "NAME @\n XU x c1\nENDATA\n", "NAME verif\n XU @ c1\nENDATA\n", "NAME verif\n XL x @\nENDATA\n", "NAME verif\n @ x c1\nENDATA\n", "NAME verif\n UL @\nENDATA\n",
	"NAME verif\n@\nENDATA\n", "@ verif\n XU x c1\nENDATA\n" };
/* control-byte positions: '@' is the single byte */
static const char *tc_lp[] = { "@min x\nst\nc1: x >= 1\nend\n", "min x@y\nst\nc1: x >= 1\nend\n", "min x\nst\nc1: x @>= 1\nend\n", "min x\nst\nc1: x >= 1@\nend\n", "min x\nst\nc1: x >= 1\nend\n@", "min x\nst\nc1: x >= 1\nend@" };
static const char *tc_mps[] = { "@NAME p\nROWS\n N obj\n G r1\nCOLUMNS\n x obj 1 r1 1\nENDATA\n", MPS_H " x@y obj 1 r1 1\nENDATA\n", MPS_H " x obj @1 r1 1\nENDATA\n", MPS_H " x obj 1 r1 1@\nENDATA\n",
	MPS_H " x obj 1 r1 1\nENDATA\n@", MPS_H "@x obj 1 r1 1\nENDATA\n" };
static const char *tc_bas[] = { "@NAME verif\n XU x c1\nENDATA\n", "NAME verif\n XU x@ c1\nENDATA\n", "NAME verif\n XU x c1@\nENDATA\n", "NAME verif\n@XU x c1\nENDATA\n", "NAME verif\n XU x c1\nENDATA@" };
#define NLINE 12                /* long-line shapes per format, see gen_line() */

static void long_add (int fmt, const char *tpl, int kind, long a, long b)
{
	if (o_fmt != F_ALL && o_fmt != fmt) return;
	g_long = realloc (g_long, sizeof (LongItem) * (size_t) (n_long + 1));
	LongItem it = { fmt, tpl, kind, a, b }; g_long[n_long++] = it;
}
#define COUNT(a) ((int) (sizeof (a) / sizeof ((a)[0])))
static void long_build (void)
{
	struct { int fmt; const char **t; int n; } N[] = { { F_LP, tn_lp, COUNT (tn_lp) }, { F_MPS, tn_mps, COUNT (tn_mps) }, { F_BAS, tn_bas, COUNT (tn_bas) } },
		V[] = { { F_LP, tv_lp, COUNT (tv_lp) }, { F_MPS, tv_mps, COUNT (tv_mps) } },
		C[] = { { F_LP, tc_lp, COUNT (tc_lp) }, { F_MPS, tc_mps, COUNT (tc_mps) }, { F_BAS, tc_bas, COUNT (tc_bas) } };
	for (int f = 0; f < 3; f++) for (int t = 0; t < N[f].n; t++) for (int l = 0; l < COUNT (name_len); l++) long_add (N[f].fmt, N[f].t[t], G_NAME, name_len[l], 0);
	for (int f = 0; f < 2; f++) for (int t = 0; t < V[f].n; t++) for (int d = 0; d < COUNT (num_dig); d++) for (int k = 0; k < NNUMFORM; k++) long_add (V[f].fmt, V[f].t[t], G_NUM, num_dig[d], k);
	for (int t = 0; t < COUNT (ts_lp); t++) for (int s = 0; s < COUNT (sign_runs); s++) long_add (F_LP, ts_lp[t], G_SIGNS, s, 0);
	for (int f = 0; f < 3; f++) for (int t = 0; t < C[f].n; t++) for (int c = 0; c < COUNT (ctrl_bytes); c++) long_add (C[f].fmt, C[f].t[t], G_CTRL, ctrl_bytes[c], 0);
	for (int f = 0; f < 3; f++) for (int s = 0; s < NLINE; s++) long_add (f, NULL, G_LINE, s, 0);
	for (int f = 0; f < 2; f++) for (int c = 0; c < COUNT (many_cnt); c++) for (int q = 0; q < NMANYPAT; q++) long_add (f == 0 ? F_LP : F_MPS, NULL, G_MANY, many_cnt[c], q);
}
static void gen_number (Buf * o, int digits, int form)
{
	static const char *expo[] = { "e", "e0", "e9", "e99", "e999", "e9999", "e-9999", "E+999" };
#define DIG() b_fill (o, '7', (size_t) digits)
	switch (form) {
	case 0: DIG (); break;
	case 1: DIG (); b_str (o, "."); DIG (); break;
	case 2: case 3: case 4: case 5: case 6: case 7: case 8: case 9: DIG (); b_str (o, expo[form - 2]); break;
	case 10: DIG (); b_str (o, "/"); DIG (); break;
	case 11: DIG (); b_str (o, "/0"); break;
	case 12: DIG (); b_str (o, "."); DIG (); b_str (o, "e99/"); DIG (); b_str (o, "e-99"); break;
	default: b_str (o, "-"); DIG (); b_str (o, "/"); break;
	}
}
/* 200 000-character lines (the line buffers hold ILL_namebufsize-2 = 131 070 characters per fgets) */
static void gen_line (Buf * o, int fmt, int shape, char *what, size_t wl)
{
	static const char *shapes[NLINE] = { "comment line", "leading blanks", "one long token", "many terms on one line", "fgets split inside a name", "fgets split inside a number",
		"fgets split inside a sense/keyword", "long last line without newline", "blank line", "trailing blanks", "long line of NUL bytes", "long line of 0xFF bytes" };
	const char *head = fmt == F_LP ? "min x\nst\nc1: x >= 1\n" : fmt == F_MPS ? MPS_H " x obj 1 r1 1\n" : "NAME verif\n";
	const char *tail = fmt == F_LP ? "end\n" : "ENDATA\n";
	const char *cmt = fmt == F_LP ? "\\" : "*";
	size_t L = 200000, cut = 131069;
	snprintf (what, wl, "%s", shapes[shape]);
	b_str (o, head);
	switch (shape) {
	case 0: b_str (o, cmt); b_fill (o, 'c', L); b_str (o, "\n"); break;
	case 1: b_fill (o, ' ', L); b_str (o, fmt == F_LP ? "c2: x <= 9\n" : fmt == F_MPS ? "x obj 1\n" : "XU x c1\n"); break;
	case 2: b_str (o, " "); b_fill (o, 'j', L); b_str (o, "\n"); break;
	case 3: if (fmt == F_LP) { b_str (o, "c2: x"); b_rep (o, " + x", L / 4); b_str (o, " <= 9\n"); }
		else if (fmt == F_MPS) { b_str (o, " y obj 1"); b_rep (o, " r1 1", L / 5); b_str (o, "\n"); }
		else { b_str (o, " XU x c1"); b_rep (o, " x c1", L / 5); b_str (o, "\n"); } break;
	case 4: case 5: case 6: {
		const char *mid = shape == 4 ? "abcdefgh" : shape == 5 ? "12345678" : fmt == F_LP ? "  <=    " : "  'MARKER'  ";
		size_t used = 0;
		if (fmt == F_LP) { b_str (o, "c2: x +"); used = 7; } else if (fmt == F_MPS) { b_str (o, " y obj 1 r1"); used = 11; } else { b_str (o, " XU x"); used = 5; }
		b_fill (o, ' ', cut - used - 4); b_str (o, mid); b_str (o, fmt == F_LP ? " x <= 9\n" : fmt == F_MPS ? " 1\n" : " c1\n"); break; }
	case 7: b_str (o, fmt == F_LP ? "c2: x" : fmt == F_MPS ? " y obj 1" : " XU x c1"); b_fill (o, ' ', L); b_str (o, fmt == F_LP ? "<= 9" : ""); return;
	case 8: b_fill (o, ' ', L); b_str (o, "\n"); break;
	case 9: b_str (o, fmt == F_LP ? "c2: x <= 9" : fmt == F_MPS ? " y obj 1" : " XU x c1"); b_fill (o, '\t', L); b_str (o, "\n"); break;
	case 10: b_fill (o, 0, L); b_str (o, "\n"); break;
	default: b_fill (o, 0xff, L); b_str (o, "\n"); break;
	}
	b_str (o, tail);
}
/* k rows (or columns) so that the k-th entry lands on a table boundary; pattern 0: rows without names (LP; MPS rows always carry one),
 * 1: all rows named, 2: only the last row unnamed, 3: k columns in one row */
static void gen_many (Buf * o, int fmt, long k, int pat, char *what, size_t wl)
{
	static const char *pn[NMANYPAT] = { "rows without names", "named rows", "named rows, the last one without a name", "columns" };
	char t[96];
	snprintf (what, wl, "%ld %s", k, pn[pat]);
	if (fmt == F_LP) {
		b_str (o, "min x\nst\n");
		if (pat == 3) { b_str (o, "c1: x"); for (long i = 1; i < k; i++) { snprintf (t, sizeof t, " + v%ld%s", i, i % 8 == 0 ? "\n" : ""); b_str (o, t); } b_str (o, " >= 1\n"); }
		else for (long i = 1; i <= k; i++) {
			if (pat == 0 || (pat == 2 && i == k)) snprintf (t, sizeof t, " x >= -%ld\n", i); else snprintf (t, sizeof t, "r%ld: x >= -%ld\n", i, i);
			b_str (o, t);
		}
		b_str (o, "end\n");
	} else {
		b_str (o, "NAME many\nROWS\n N obj\n");
		if (pat == 3) b_str (o, " G r1\n"); else for (long i = 1; i <= k; i++) { snprintf (t, sizeof t, " G r%ld\n", i); b_str (o, t); }
		b_str (o, "COLUMNS\n");
		if (pat == 3) for (long i = 1; i <= k; i++) { snprintf (t, sizeof t, " v%ld obj 1 r1 1\n", i); b_str (o, t); }
		else { b_str (o, " x obj 1\n"); for (long i = 1; i <= k; i++) { snprintf (t, sizeof t, " x r%ld 1\n", i); b_str (o, t); } }
		b_str (o, "RHS\n");
		if (pat == 3) b_str (o, " RHS r1 1\n"); else for (long i = 1; i <= k; i++) { snprintf (t, sizeof t, " RHS r%ld -%ld\n", i, i); b_str (o, t); }
		b_str (o, "ENDATA\n");
	}
}
static int gen_long (long item)
{
	const LongItem *it = &g_long[item]; Buf g = { 0, 0, 0 }; char what[120] = "";
	switch (it->kind) {
	case G_NAME: b_fill (&g, 'n', (size_t) it->a); snprintf (what, sizeof what, "name of %ld characters", it->a); break;
	case G_NUM: gen_number (&g, (int) it->a, (int) it->b); snprintf (what, sizeof what, "number form %ld with %ld-digit strings (%.40s%s)", it->b, it->a, (char *) g.d, g.n > 40 ? "..." : ""); break;
	case G_SIGNS: if (sign_runs[it->a][0] == '*') b_rep (&g, "+ - ", 500); else b_str (&g, sign_runs[it->a]); snprintf (what, sizeof what, "sign run #%ld", it->a); break;
	case G_CTRL: b_fill (&g, (int) it->a, 1); snprintf (what, sizeof what, "control byte 0x%02lx", it->a); break;
	case G_MANY: gen_many (&g_in, it->fmt, it->a, (int) it->b, what, sizeof what); break;
	default: gen_line (&g_in, it->fmt, (int) it->a, what, sizeof what); break;
	}
	if (it->tpl) for (const char *s = it->tpl; *s; s++) { if (*s == '@') b_add (&g_in, g.d, g.n); else b_add (&g_in, s, 1); }
	snprintf (g_desc, sizeof g_desc, "mode=long fmt=%s %s in template \"%.60s\"", fmt_name[it->fmt], what, it->tpl ? it->tpl : "(line)");
	for (char *c = g_desc; *c; c++) if (*c == '\n') *c = '|';
	free (g.d);
	return it->fmt;
}

/* ------------------------------------------------------------ mode=tok */
static void render_tok (int fmt, Buf * o, const char *t, int *bol)
{
	if (!strcmp (t, "\n")) { b_str (o, "\n"); *bol = 1; return; }
	if (!*bol || (fmt != F_LP && !is_key (t))) b_str (o, " ");
	b_str (o, !strcmp (t, "\\c") ? "\\ c" : t);
	*bol = 0;
}
static int gen_tok (long item)
{
	int f = o_fmt, A = alpha_n[f];
	long per = seq_count (A, o_k), pi = item / per, s = item % per, p = 1;
	int len = 0, seq[16];
	while (s >= p) { s -= p; p *= A; len++; }
	for (int j = len - 1; j >= 0; j--) { seq[j] = (int) (s % A); s /= A; }
	const char *pre = pre_of[f][pi];
	b_str (&g_in, pre);
	int bol = 1, k = (int) snprintf (g_desc, sizeof g_desc, "mode=tok fmt=%s prefix#%ld tokens:", fmt_name[f], pi);
	for (int j = 0; j < len; j++) {
		const char *t = alpha_of[f][seq[j]];
		render_tok (f, &g_in, t, &bol);
		if (k < (int) sizeof g_desc - 16) k += snprintf (g_desc + k, sizeof g_desc - (size_t) k, " %s", !strcmp (t, "\n") ? "\\n" : t);
	}
	return f;
}


/* ------------------------------------------------------------ mode=rec: every sequence of <= k whole records (lines) after each valid prefix
 * (sections out of order, repeated and interleaved sections, records of one section inside another, a second ENDATA ...) */
static const char *rec_mps[] = { "ROWS\n", " N obj2\n", " L r3\n", "COLUMNS\n", " c3 obj 1 r1 1\n", " c4 obj 2 r2 1\n", " c5 obj2 7\n", " c3 r1 2\n", "RHS\n", " rhs r1 4\n", "RANGES\n", " rng r1 2\n", " rng r2 -1\n",
	"BOUNDS\n", " UP bnd c1 4\n", " UP bnd c3 5\n", " LO bnd c4 -2\n", " FR bnd c4\n", "OBJSENSE\n MAX\n", "OBJNAME\n r1\n", "ENDATA\n" };
static const char *rec_lp[] = { "max x + y\n", "min\n", "st\n", "c2: x - y >= 1\n", "c3: z <= 2\n", "-1 <= x + y <= 3\n", "bounds\n", "x <= 4\n", "-2 <= z <= 2\n", "z free\n", "y = 1\n", "integer\n", "x z\n", "end\n" };
static const char *rec_bas[] = { "NAME verif\n", " XU x c1\n", " XL y c2\n", " UL x\n", " LL y\n", " XU y c1\n", " UL y\n", "ENDATA\n" };
static const char **rec_of[3] = { rec_lp, rec_mps, rec_bas };
static const int rec_n[3] = { 14, 21, 8 };
static int gen_rec (long item)
{
	int f = o_fmt, A = rec_n[f];
	long per = seq_count (A, o_k), pi = item / per, s = item % per, p = 1;
	int len = 0, seq[16];
	while (s >= p) { s -= p; p *= A; len++; }
	for (int j = len - 1; j >= 0; j--) { seq[j] = (int) (s % A); s /= A; }
	b_str (&g_in, pre_of[f][pi]);
	int k = (int) snprintf (g_desc, sizeof g_desc, "mode=rec fmt=%s prefix#%ld records:", fmt_name[f], pi);
	for (int j = 0; j < len; j++) {
		const char *t = rec_of[f][seq[j]];
		b_str (&g_in, t);
		if (k < (int) sizeof g_desc - 24) { k += snprintf (g_desc + k, sizeof g_desc - (size_t) k, " [%.18s", t[0] == ' ' ? t + 1 : t); for (char *c = g_desc; *c; c++) if (*c == '\n') *c = '|'; if (k < (int) sizeof g_desc - 2) { g_desc[k++] = ']'; g_desc[k] = 0; } }
	}
	return f;
}

/* ------------------------------------------------------------ mode=mut */
static int apply_edit (Tok * t, int *n, int pos, int e, const char **A, char *what, size_t wl)
{
	if (pos >= *n) return -1;
	if (e == 0) { snprintf (what, wl, "delete token %d \"%.*s\"", pos, t[pos].tl > 20 ? 20 : t[pos].tl, t[pos].tx); memmove (t + pos, t + pos + 1, sizeof (Tok) * (size_t) (*n - pos - 1)); (*n)--; }
	else if (e == 1) {
		snprintf (what, wl, "duplicate token %d \"%.*s\"", pos, t[pos].tl > 20 ? 20 : t[pos].tl, t[pos].tx);
		memmove (t + pos + 1, t + pos, sizeof (Tok) * (size_t) (*n - pos)); (*n)++;
		if (!t[pos + 1].wl && t[pos].tx[0] != '\n') { t[pos + 1].ws = " "; t[pos + 1].wl = 1; }
	} else if (e == 2) {
		if (pos + 1 >= *n) return -1;
		snprintf (what, wl, "swap tokens %d,%d", pos, pos + 1);
		const char *x = t[pos].tx; int xl = t[pos].tl; t[pos].tx = t[pos + 1].tx; t[pos].tl = t[pos + 1].tl; t[pos + 1].tx = x; t[pos + 1].tl = xl;
	} else {
		const char *r = A[e - 3]; if (!strcmp (r, "\\c")) r = "\\ c";
		snprintf (what, wl, "replace token %d \"%.*s\" by \"%s\"", pos, t[pos].tl > 20 ? 20 : t[pos].tl, t[pos].tx, r[0] == '\n' ? "\\n" : r);
		t[pos].tx = r; t[pos].tl = (int) strlen (r);
	}
	return 0;
}
static const unsigned char byte_repl[] = { 0x00, 0xff, '\n', ':', '/', '-', '9' };
static long mut_count (int b)
{
	int E = alpha_n[bases[b].fmt] + 3;
	long c = (long) b_ntok[b] * E + (long) b_len[b] * 8;
	if (o_radius >= 2) c += (long) b_ntok[b] * 5 * E * E;
	return c;
}
static int gen_mut (long item)
{
	int b = 0; while (item >= b_cum[b + 1]) b++;
	long r = item - b_cum[b];
	int f = bases[b].fmt, E = alpha_n[f] + 3, nt = b_ntok[b];
	const char *text = bases[b].text; char w1[100] = "", w2[100] = "";
	if (r >= (long) nt * E && r < (long) nt * E + (long) b_len[b] * 8) {
		r -= (long) nt * E;
		size_t pos = (size_t) (r / 8); int e = (int) (r % 8);
		b_add (&g_in, text, pos);
		if (e) b_add (&g_in, &byte_repl[e - 1], 1);
		b_add (&g_in, text + pos + 1, b_len[b] - pos - 1);
		if (e) snprintf (g_desc, sizeof g_desc, "mode=mut base=%s byte %zu (0x%02x) replaced by 0x%02x", bases[b].name, pos, (unsigned char) text[pos], byte_repl[e - 1]);
		else snprintf (g_desc, sizeof g_desc, "mode=mut base=%s byte %zu (0x%02x) deleted", bases[b].name, pos, (unsigned char) text[pos]);
		return f;
	}
	Tok *t = malloc (sizeof (Tok) * (size_t) (nt + 4)); int n = nt, bad = 0;
	memcpy (t, b_tok[b], sizeof (Tok) * (size_t) nt);
	if (r < (long) nt * E) bad = apply_edit (t, &n, (int) (r / E), (int) (r % E), alpha_of[f], w1, sizeof w1);
	else {
		r -= (long) nt * E + (long) b_len[b] * 8;
		int e2 = (int) (r % E), e1 = (int) (r / E % E), d = (int) (r / E / E % 5) + 1, i = (int) (r / E / E / 5);
		bad = apply_edit (t, &n, i + d, e2, alpha_of[f], w2, sizeof w2);      /* higher position first: positions below it are unaffected */
		if (!bad) bad = apply_edit (t, &n, i, e1, alpha_of[f], w1, sizeof w1);
	}
	if (!bad) for (int i = 0; i < n; i++) { b_add (&g_in, t[i].ws, (size_t) t[i].wl); b_add (&g_in, t[i].tx, (size_t) t[i].tl); }
	free (t);
	snprintf (g_desc, sizeof g_desc, "mode=mut base=%s %s%s%s", bases[b].name, w1, w2[0] ? " ; " : "", w2);
	return bad ? -1 : f;
}
/* ------------------------------------------------------------ mode=own: every token replaced by every other distinct token of the same file
 * (cross references: a row name where a column name belongs, the name of a ranged row as OBJNAME, a section keyword as a name ...) */
static int b_voc[32][400], b_nvoc[32];
static void build_voc (int b)
{
	b_nvoc[b] = 0;
	for (int i = 0; i < b_ntok[b]; i++) {
		int dup = 0;
		for (int k = 0; k < b_nvoc[b] && !dup; k++) { Tok *o = &b_tok[b][b_voc[b][k]]; if (o->tl == b_tok[b][i].tl && !memcmp (o->tx, b_tok[b][i].tx, (size_t) o->tl)) dup = 1; }
		if (!dup && b_nvoc[b] < 400 && b_tok[b][i].tx[0] != '\n') b_voc[b][b_nvoc[b]++] = i;
	}
}
static int gen_own (long item)
{
	int b = 0; while (item >= b_cum[b + 1]) b++;
	long r = item - b_cum[b];
	int nt = b_ntok[b], pos = (int) (r / b_nvoc[b]), v = b_voc[b][r % b_nvoc[b]];
	Tok *src = b_tok[b];
	if (src[pos].tl == src[v].tl && !memcmp (src[pos].tx, src[v].tx, (size_t) src[v].tl)) return -1;   /* same text: not an edit */
	if (src[pos].tx[0] == '\n') return -1;
	for (int i = 0; i < nt; i++) {
		b_add (&g_in, src[i].ws, (size_t) src[i].wl);
		if (i == pos) b_add (&g_in, src[v].tx, (size_t) src[v].tl); else b_add (&g_in, src[i].tx, (size_t) src[i].tl);
	}
	snprintf (g_desc, sizeof g_desc, "mode=own base=%s replace token %d \"%.*s\" by the file's own token \"%.*s\"", bases[b].name, pos, src[pos].tl > 20 ? 20 : src[pos].tl, src[pos].tx, src[v].tl > 20 ? 20 : src[v].tl, src[v].tx);
	return bases[b].fmt;
}
static int gen_trunc (long item)
{
	int b = 0; while (item >= b_cum[b + 1]) b++;
	size_t cut = (size_t) (item - b_cum[b]);
	if (o_comp) b_add (&g_in, b_comp[b].d, cut); else b_add (&g_in, bases[b].text, cut);
	size_t full = o_comp ? b_comp[b].n : b_len[b];
	g_expect_ok = (cut == full);
	snprintf (g_desc, sizeof g_desc, "mode=trunc base=%s%s first %zu of %zu bytes", bases[b].name, o_comp == 1 ? " gzip stream" : o_comp == 2 ? " bzip2 stream" : "", cut, full);
	return bases[b].fmt;
}

/* ------------------------------------------------------------ family plumbing */
static void rdr_init (void)
{
	const char *m = opt_str ("mode", "tok"), *f = opt_str ("fmt", NULL), *c = opt_str ("comp", ""), *v = opt_str ("via", "file");
	o_mode = !strcmp (m, "mut") ? M_MUT : !strcmp (m, "trunc") ? M_TRUNC : !strcmp (m, "long") ? M_LONG : !strcmp (m, "own") ? M_OWN : !strcmp (m, "rec") ? M_REC : M_TOK;
	o_fmt = (o_mode == M_TOK || o_mode == M_REC) ? F_LP : F_ALL;
	if (f) for (int i = 0; i < 4; i++) if (!strcmp (f, fmt_name[i])) o_fmt = i;
	if ((o_mode == M_TOK || o_mode == M_REC) && o_fmt == F_ALL) o_fmt = F_LP;
	o_k = (int) opt_int ("k", 2); if (o_k > 8) o_k = 8;
	o_radius = (int) opt_int ("radius", 1);
	o_comp = !strcmp (c, "gz") ? 1 : !strcmp (c, "bz2") ? 2 : 0;
	o_via = !strcmp (v, "reader");
	o_base = (int) opt_int ("base", -1);
	o_solve = (int) opt_int ("solve", 1);
	if (o_mode != M_TRUNC) o_comp = 0;
	if (o_comp) o_via = 0;      /* compression is decided by the file name: file route only */
	for (int b = 0; b < NBASE; b++) { tokenize (b); b_len[b] = strlen (bases[b].text); build_voc (b); }
	n_items = 0;
	if (o_mode == M_TOK) n_items = pre_n[o_fmt] * seq_count (alpha_n[o_fmt], o_k);
	else if (o_mode == M_REC) n_items = pre_n[o_fmt] * seq_count (rec_n[o_fmt], o_k);
	else if (o_mode == M_LONG) { long_build (); n_items = n_long; }
	else for (int b = 0; b < NBASE; b++) {
		b_cum[b] = n_items;
		if (base_selected (b)) {
			if (o_mode == M_TRUNC && o_comp) compress_base (b);
			n_items += o_mode == M_MUT ? mut_count (b) : o_mode == M_OWN ? (long) b_ntok[b] * b_nvoc[b] : (long) (o_comp ? b_comp[b].n : b_len[b]) + 1;
		}
		b_cum[b + 1] = n_items;
	}
	/* the problem basis files are read against: min -x -2y, c1: x+y<=4, c2: x-y>=-2, 0<=x<=3, y>=0 ; optimum -7 at (1,3) */
	g_basM = ref_new (REF_MIN);
	mpq_t a, l, u; mpq_init (a); mpq_init (l); mpq_init (u); mpq_init (g_basopt); mpq_set_si (g_basopt, -7, 1);
	mpq_set_si (a, -1, 1); mpq_set_si (u, 3, 1); ref_add_col (g_basM, a, l, 0, u, 0, "x");
	mpq_set_si (a, -2, 1); ref_add_col (g_basM, a, l, 0, u, 1, "y");
	mpq_set_si (a, 4, 1); ref_add_row (g_basM, 'L', a, l, "c1"); mpq_set_si (a, -2, 1); ref_add_row (g_basM, 'G', a, l, "c2");
	mpq_set_si (REF_A (g_basM, 0, 0), 1, 1); mpq_set_si (REF_A (g_basM, 0, 1), 1, 1); mpq_set_si (REF_A (g_basM, 1, 0), 1, 1); mpq_set_si (REF_A (g_basM, 1, 1), -1, 1);
	mpq_clear (a); mpq_clear (l); mpq_clear (u);
}
static long rdr_count (void) { return n_items; }

/* printable rendering of the first bytes of the input (C string syntax) */
static const char *esc_input (void)
{
	static char out[1400]; size_t k = 0;
	for (size_t i = 0; i < g_in.n && i < 300 && k + 8 < sizeof out; i++) {
		unsigned char c = g_in.d[i];
		if (c == '\n') { out[k++] = '\\'; out[k++] = 'n'; }
		else if (c == '"' || c == '\\') { out[k++] = '\\'; out[k++] = (char) c; }
		else if (c < 0x20 || c >= 0x7f) k += (size_t) snprintf (out + k, sizeof out - k, "\\x%02x\"\"", c);
		else out[k++] = (char) c;
	}
	out[k] = 0;
	return out;
}
#define CTX "%s [%s; input (%zu bytes) \"%s\"]"
#define CTXARGS g_desc, o_via ? "via=reader" : "via=file", g_in.n, esc_input ()
/* at most a few records per signature and worker: error paths repeat on thousands of items */
static int rate_ok (const char *sig)
{
	static char seen[64][200]; static int cnt[64], n;
	for (int i = 0; i < n; i++) if (!strcmp (seen[i], sig)) { if (cnt[i] >= 6) { stat_dyn ("viol_suppressed_", sig); return 0; } cnt[i]++; return 1; }
	if (n < 64) { snprintf (seen[n], sizeof seen[n], "%s", sig); cnt[n++] = 1; }
	return 1;
}
static void write_input (const char *fname)
{
	FILE *f = fopen (fname, "wb");
	if (!f || fwrite (g_in.d, 1, g_in.n, f) != g_in.n || fclose (f)) { viol ("HARNESS", "cannot-write-input", "cannot write %s in the scratch directory %s: %s", fname, g_scratch, strerror (errno)); }
}

/* leaks are named after the error path that was taken: the first error message of the read, with quoted
 * text and digits blanked (deterministic and cheap; a --verbose replay adds the LeakSanitizer report) */
static char g_errkey[64];
static void set_errkey (const char *first_collected)
{
	const char *s = first_collected, *e;
	if (!s && (s = strstr (g_logbuf.s, "MPS Error: "))) s += 11;
	if (!s && (s = strstr (g_logbuf.s, "Data Error: "))) s += 12;
	if (!s && (s = strstr (g_logbuf.s, "LP Error")) && (s = strstr (s, "\n: \n"))) s += 4;
	if (!s) { snprintf (g_errkey, sizeof g_errkey, "%s", g_logbuf.len ? "other-message" : "no-message"); return; }
	size_t k = 0; int inq = 0;
	if ((e = strstr (s, " is not a MARKER field")) && e < s + strcspn (s, "\n")) s = e + 1;   /* the only format with an unquoted leading %s */
	for (e = s; *e && *e != '\n' && k + 2 < sizeof g_errkey; e++) {
		if (*e == '"' && inq != 2) { inq = !inq; continue; }
		if (*e == '\'' && inq != 1) { inq = inq ? 0 : 2; continue; }
		if (inq) continue;
		g_errkey[k++] = (*e >= '0' && *e <= '9') ? '#' : (*e == ' ' || (unsigned char) *e < 0x20 || (unsigned char) *e >= 0x7f) ? '-' : *e;
	}
	g_errkey[k] = 0;
}
/* the line-reader / error-collector route; everything is released through the documented free functions */
static mpq_QSprob read_via_reader (const char *fname, const char *ftype, int *nerr)
{
	FILE *f = fopen (fname, "r");
	if (!f) return NULL;
	mpq_QSerror_memory mem = mpq_QSerror_memory_create (1);
	mpq_QSerror_collector col = mpq_QSerror_memory_collector_new (mem);
	mpq_QSline_reader rd = mpq_QSline_reader_new ((void *) fgets, f);
	mpq_QSline_reader_set_error_collector (rd, col);
	mpq_QSprob p = mpq_QSget_prob (rd, "in", ftype);
	*nerr = mpq_QSerror_memory_get_nerrors (mem);
	int walked = 0; size_t touched = 0; static char first[200]; first[0] = 0;
	for (mpq_QSformat_error e = mpq_QSerror_memory_get_last_error (mem); e; e = mpq_QSerror_memory_get_prev_error (e)) {
		const char *d = mpq_QSerror_get_desc (e), *l = mpq_QSerror_get_line (e);
		int tp = mpq_QSerror_get_type (e), pos = mpq_QSerror_get_pos (e), ln = mpq_QSerror_get_line_number (e);
		touched += (d ? strlen (d) : 0) + (l ? strlen (l) : 0) + strlen (mpq_QSformat_error_type_string (tp));
		if (d && !(tp & 1)) snprintf (first, sizeof first, "%s", d);       /* even types are errors, odd ones warnings; the list is newest-first */
		if (!d || (l && (ln < 0 || pos > (int) strlen (l)))) { if (!g_attr && rate_ok ("bad-error-record")) viol ("C11", "bad-error-record", "error record %d: desc=%s line=%d pos=%d beyond its line (%zu chars): " CTX, walked, d ? "set" : "NULL", ln, pos, l ? strlen (l) : 0, CTXARGS); }
		walked++;
	}
	if (walked) { FILE *nul = fopen ("/dev/null", "w"); if (nul) mpq_QSerror_print (nul, mpq_QSerror_memory_get_last_error (mem)); }   /* the library closes the FILE it is given */
	if (walked != *nerr && !g_attr && rate_ok ("error-count-mismatch")) viol ("C11", "error-count-mismatch", "get_nerrors says %d, list has %d: " CTX, *nerr, walked, CTXARGS);
	if (!g_attr) { STATN ("collector_messages", walked); STATN ("collector_bytes", (long) touched); }
	mpq_QSline_reader_free (rd);
	mpq_QSerror_collector_free (col);
	mpq_QSerror_memory_free (mem);
	fclose (f);
	set_errkey (first[0] ? first : NULL);
	return p;
}

#define ST(name) do { if (!g_attr) STAT (name); } while (0)
static void check_problem (mpq_QSprob p)
{
	char why[600] = "";
	int n = mpq_QSget_colcount (p), m = mpq_QSget_rowcount (p), rv, st = -1;
	if (!g_attr) { stat_max ("max_cols", n); stat_max ("max_rows", m); tr_int (n); tr_int (m); }
	RefLP *M = qsx_readback (p, why, sizeof why);
	if (!M) { if (!g_attr && rate_ok ("readback-failed")) viol ("C11", "readback-failed", "the returned problem (%d cols, %d rows) cannot be queried: %s: " CTX, n, m, why, CTXARGS); }
	else {
		if (qsx_conform (p, M, 1, why, sizeof why)) { if (!g_attr && rate_ok ("inconsistent-problem")) viol ("C11", "inconsistent-problem", "the returned problem contradicts itself: %s: " CTX, why, CTXARGS); }
		else ST ("problems_consistent");
		if (!ref_wellformed (M)) ST ("problems_crossed_bounds");
		ref_free (M);
	}
	for (int w = 0; w < 2; w++) {
		long l0 = g_log_count;
		rv = mpq_QSwrite_prob (p, w ? "o.mps" : "o.lp", w ? "MPS" : "LP");
		if (rv) { ST ("write_failed"); if (!g_attr && g_log_count == l0 && rate_ok ("write-fails-silently")) viol ("C11", "write-fails-silently", "mpq_QSwrite_prob(%s) returned %d without any message: " CTX, w ? "MPS" : "LP", rv, CTXARGS); }
		else ST ("write_ok");
	}
	if (o_solve && !g_attr) {
		rv = QSexact_solver (p, NULL, NULL, NULL, DUAL_SIMPLEX, &st);
		stat_dyn ("solve_status_", status_name (st));
		if (rv) STAT ("solve_rval_nonzero");
		tr_int (st);
	}
	mpq_QSfree_prob (p);
}

static void show_leaks (void)
{
	char path[64]; static char rep[16384];
	if (!leak_check_now ()) return;
	snprintf (path, sizeof path, "san.%d", (int) getpid ());
	FILE *f = fopen (path, "r"); size_t k = f ? fread (rep, 1, sizeof rep - 1, f) : 0; rep[k] = 0;
	if (f) { fclose (f); unlink (path); }
	vlog ("%s\n", rep);
}
/* QSexactClear, stdio capture and allocation balance; returns the number of bytes still allocated */
static long finish_item (size_t mem0, const char *sigfmt)
{
	char capbuf[300]; capbuf[0] = 0; long leaked = 0;
	qsx_stop ();
	long capn = cap_end (capbuf, sizeof capbuf);
	if (capn && !g_attr && rate_ok ("reader-writes-stdio")) viol ("C20", "reader-writes-stdio", "%ld bytes reached stdout/stderr with a log handler installed (\"%.120s\"): " CTX, capn, capbuf, CTXARGS);
	if (mem_tracking ()) {
		leaked = (long) mem_now () - (long) mem0;
		ST ("mem_balance_checked");
		if (leaked && sigfmt) {
			char sig[120]; snprintf (sig, sizeof sig, sigfmt, g_errkey);
			STAT ("leaking_items");
			if (g_verbose) show_leaks ();
			if (rate_ok (sig)) viol ("C18", sig, "%ld bytes remain allocated after everything was freed and QSexactClear(): " CTX, leaked, CTXARGS);
		}
	}
	return leaked;
}

/* one read of the current input file with everything that follows; returns leaked bytes */
static long prob_pass (int fmt, const char *fname, int *got)
{
	const char *ftype = fmt == F_MPS ? "MPS" : "LP";
	size_t mem0 = 0; int nerr = 0;
	qsx_log_reset ();
	cap_begin ();
	if (mem_tracking ()) mem0 = mem_now ();
	qsx_start ();
	mpq_QSprob p = o_via ? read_via_reader (fname, ftype, &nerr) : mpq_QSread_prob (fname, ftype);
	if (!o_via) set_errkey (NULL);
	if (p) snprintf (g_errkey, sizeof g_errkey, "problem-returned");
	ST ("executions");
	if (!g_attr) { stat_max ("max_messages", g_log_count + nerr); tr_int (p != NULL); }
	*got = p != NULL;
	if (!p) {
		ST ("outcome_null");
		if (g_log_count + nerr == 0) ST ("null_without_message");
		if (g_expect_ok && !g_attr) viol ("HARNESS", "base-file-rejected", "an unchanged base file was rejected: %s: " CTX, g_logbuf.s, CTXARGS);
	} else {
		ST ("outcome_problem");
		if (g_log_count + nerr) ST ("problem_with_messages");
		check_problem (p);
	}
	/* a leak with a solved problem is attributed below */
	long leaked = finish_item (mem0, (g_attr || (p && o_solve)) ? NULL : "reader-leak:%s");
	if (!g_attr && sample_wanted ()) sample ("%s -> %s, %ld log messages, %d collected errors", g_desc, p ? "problem" : "NULL", g_log_count, nerr);
	return leaked;
}
static void run_prob (int fmt)
{
	char fname[32]; int got = 0;
	snprintf (fname, sizeof fname, "in.%s%s", fmt == F_MPS ? "mps" : "lp", o_comp == 1 ? ".gz" : o_comp == 2 ? ".bz2" : "");
	write_input (fname);
	long leaked = prob_pass (fmt, fname, &got);
	if (leaked && got && o_solve) {
		/* was it the reader or the solve?  repeat the read without solving */
		if (g_verbose) show_leaks ();
		g_attr = 1; long again = prob_pass (fmt, fname, &got); g_attr = 0;
		const char *sig = again ? "reader-leak:problem-returned" : "solve-leak:QSexact_solver";
		STAT ("leaking_items");
		if (rate_ok (sig)) viol ("C18", sig, "%ld bytes remain allocated after everything was freed and QSexactClear() (%ld without the solve): " CTX, leaked, again, CTXARGS);
	}
	unlink (fname); unlink ("o.lp"); unlink ("o.mps");
}

static int basis_ok (const QSbasis * B, char *why, size_t wl)
{
	int nb = 0;
	if (B->nstruct != 2 || B->nrows != 2 || !B->cstat || !B->rstat) { snprintf (why, wl, "sizes %d/%d", B->nstruct, B->nrows); return 0; }
	for (int j = 0; j < 2; j++) { char c = B->cstat[j]; if (c == QS_COL_BSTAT_BASIC) nb++; else if (c != QS_COL_BSTAT_LOWER && c != QS_COL_BSTAT_UPPER && c != QS_COL_BSTAT_FREE) { snprintf (why, wl, "cstat[%d]=%d", j, c); return 0; } }
	for (int i = 0; i < 2; i++) { char c = B->rstat[i]; if (c == QS_ROW_BSTAT_BASIC) nb++; else if (c != QS_ROW_BSTAT_LOWER && c != QS_ROW_BSTAT_UPPER) { snprintf (why, wl, "rstat[%d]=%d", i, c); return 0; } }
	if (nb != 2) STAT ("basis_wrong_number_of_basics");
	tr_bytes (B->cstat, 2); tr_bytes (B->rstat, 2);
	return 1;
}
static void expect_optimum (mpq_QSprob p, int rv, int st, const char *what)
{
	mpq_t v; mpq_init (v);
	int rg = mpq_QSget_objval (p, &v);
	stat_dyn ("solve_status_", status_name (st));
	if (rv || st != QS_LP_OPTIMAL || rg || !mpq_equal (v, g_basopt)) {
		char sig[80]; snprintf (sig, sizeof sig, "%s:%s", rv ? "basis-accepted-then-solve-fails" : "basis-file-changes-answer", what);
		if (rate_ok (sig)) viol ("C11", sig, "%s after reading the basis file: rval %d status %s objval %s %.4f, the LP's optimum is -7: " CTX, what, rv, status_name (st), rg ? "unavailable" : "=", rg ? 0.0 : mpq_get_d (v), CTXARGS);
	}
	mpq_clear (v);
}
static void run_bas (void)
{
	char fname[32], why[200] = ""; int st = -1, rv;
	snprintf (fname, sizeof fname, "in.bas%s", o_comp == 1 ? ".gz" : o_comp == 2 ? ".bz2" : "");
	write_input (fname);
	size_t mem0 = 0;
	qsx_log_reset ();
	cap_begin ();
	if (mem_tracking ()) mem0 = mem_now ();
	qsx_start ();
	mpq_QSprob p = qsx_build (g_basM, ROUTE_LOAD, 0);
	if (!p || QSexact_solver (p, NULL, NULL, NULL, DUAL_SIMPLEX, &st) || st != QS_LP_OPTIMAL) viol ("HARNESS", "bas-problem", "the reference problem could not be built and solved (status %d)", st);
	else {
		long l0 = g_log_count;
		QSbasis *B = mpq_QSread_basis (p, fname);
		set_errkey (NULL);
		if (B) snprintf (g_errkey, sizeof g_errkey, "basis-returned");
		STAT ("executions");
		tr_int (B != NULL);
		if (B) {
			STAT ("outcome_basis");
			if (!basis_ok (B, why, sizeof why)) { if (rate_ok ("malformed-basis")) viol ("C11", "malformed-basis", "mpq_QSread_basis returned a malformed basis (%s): " CTX, why, CTXARGS); }
			else if (o_solve) { rv = QSexact_solver (p, NULL, NULL, B, DUAL_SIMPLEX, &st); expect_optimum (p, rv, st, "QSexact_solver(warm)"); }
			mpq_QSfree_basis (B);
		} else {
			STAT ("outcome_null");
			if (g_log_count == l0) STAT ("null_without_message");
			if (g_expect_ok) viol ("HARNESS", "base-file-rejected", "an unchanged base file was rejected: %s: " CTX, g_logbuf.s, CTXARGS);
		}
		rv = mpq_QSread_and_load_basis (p, fname);
		STAT ("executions");
		if ((rv == 0) != (B != NULL) && rate_ok ("read-vs-load-disagree")) viol ("C11", "read-vs-load-disagree", "mpq_QSread_basis %s but mpq_QSread_and_load_basis returned %d: " CTX, B ? "succeeded" : "failed", rv, CTXARGS);
		if (!rv) {
			QSbasis *G = mpq_QSget_basis (p);
			if (!G) { if (rate_ok ("loaded-basis-unavailable")) viol ("C11", "loaded-basis-unavailable", "mpq_QSget_basis fails after mpq_QSread_and_load_basis: " CTX, CTXARGS); }
			else { if (!basis_ok (G, why, sizeof why) && rate_ok ("malformed-basis")) viol ("C11", "malformed-basis", "loaded basis is malformed (%s): " CTX, why, CTXARGS); mpq_QSfree_basis (G); }
			if (o_solve) {
				rv = mpq_QSopt_primal (p, &st); expect_optimum (p, rv, st, "mpq_QSopt_primal");
				if (!mpq_QSread_and_load_basis (p, fname)) { rv = mpq_QSopt_dual (p, &st); expect_optimum (p, rv, st, "mpq_QSopt_dual"); }
			}
		}
	}
	if (p) mpq_QSfree_prob (p);
	finish_item (mem0, "reader-leak:%s");
	if (sample_wanted ()) sample ("%s -> basis %s, %ld log messages", g_desc, g_errkey, g_log_count);
	unlink (fname);
}

/* the property limits numeric exponents to 4 digits (larger ones are expanded digit by digit: a resource question) */
static int exponent_out_of_scope (void)
{
	for (size_t i = 1; i + 1 < g_in.n; i++) {
		unsigned char c = g_in.d[i], p = g_in.d[i - 1];
		if ((c != 'e' && c != 'E') || !((p >= '0' && p <= '9') || p == '.')) continue;
		size_t j = i + 1, nd = 0;
		if (g_in.d[j] == '+' || g_in.d[j] == '-') j++;
		while (j < g_in.n && g_in.d[j] >= '0' && g_in.d[j] <= '9') { nd++; j++; }
		if (nd > 4) return 1;
	}
	return 0;
}
static void rdr_run (long item)
{
	int fmt;
	g_in.n = 0; if (g_in.d) g_in.d[0] = 0; else b_str (&g_in, "");
	g_desc[0] = 0; g_expect_ok = 0;
	switch (o_mode) {
	case M_TOK: fmt = gen_tok (item); break;
	case M_REC: fmt = gen_rec (item); break;
	case M_MUT: fmt = gen_mut (item); break;
	case M_OWN: fmt = gen_own (item); break;
	case M_TRUNC: fmt = gen_trunc (item); break;
	default: fmt = gen_long (item); break;
	}
	if (fmt < 0) { STAT ("items_void"); return; }    /* edit not applicable at this position (e.g. swap at the last token) */
	if (exponent_out_of_scope ()) { STAT ("items_out_of_scope_exponent"); return; }
	STAT ("instances");
	stat_dyn ("instances_", fmt_name[fmt]);
	int trivial = (g_in.n == 0);
	for (int b = 0; b < NBASE && !trivial; b++) if (g_in.n == b_len[b] && !memcmp (g_in.d, bases[b].text, g_in.n)) trivial = 1;
	if (!trivial) STAT ("instances_nontrivial");
	distinct_add ("inputs", fnv1a (g_in.d, g_in.n, 1469598103934665603ULL));
	stat_max ("max_input_bytes", (long) g_in.n);
	tr_bytes (g_in.d, g_in.n);
	vlog ("item %ld: %s\n  input (%zu bytes): \"%s\"\n", item, g_desc, g_in.n, esc_input ());
	if (fmt == F_BAS) run_bas (); else run_prob (fmt);
}

Family fam_rdr = { "rdr", "input-file neighbourhoods through the LP/MPS/basis readers (C11; C18 C20 oracles); --opt mode=tok|mut|trunc|long --opt fmt=lp|mps|bas --opt k=N --opt radius=2 --opt comp=gz|bz2 --opt via=reader",
	rdr_init, rdr_count, rdr_run, NULL, 20 };
