/* E-ESOL: the esolver executable on library-written problem files x command-line option vectors.
 * Decides C19.  One item = (LP instance, file kind, option vector); with --opt bad=1 a fixed list of
 * malformed / unreadable inputs is appended after the regular items.
 *   --opt esolver=/path/to/esolver   (required)
 *   --opt fam=S0q1|...|T   --opt dev=0|1|2|9   --opt kinds=all|basic   --opt bad=0|1   --opt mlimit=<-m value>
 * The solution file is parsed here, independently of the library, and judged by O-REF / O-OPT. */
#define _GNU_SOURCE
#include <stdlib.h>
#include <string.h>
#include <unistd.h>
#include <fcntl.h>
#include <signal.h>
#include <spawn.h>
#include <errno.h>
#include <sys/wait.h>
#include <sys/stat.h>
#include <zlib.h>
#include <bzlib.h>
#include "lpfam.h"

extern char **environ;

/* ------------------------------------------------------------------ axes */
typedef struct { int o, p, d, S, P, b; } OptVec;       /* 0 = default on every axis */
static const int AX_SIZE[6] = { 3, 5, 5, 2, 3, 2 };
static const char *SOLNAME[3] = { "sol.txt", "sol.txt.gz", "sol.txt.bz2" };
static const char *SOLNAME2[3] = { "sol2.txt", "sol2.txt.gz", "sol2.txt.bz2" };
static const int PVAL[5] = { 0, 1, 2, 3, 4 };           /* QS_PRICE_PDANTZIG..PMULTPARTIAL (usage text) */
static const int DVAL[5] = { 0, 6, 7, 8, 9 };           /* QS_PRICE_DDANTZIG..DDEVEX */
static const int BITS[3] = { 0, 64, 256 };
static const struct { const char *file, *type; int L; } KINDS[8] = {
	{ "x.lp", "LP", 0 }, { "x.mps", "MPS", 0 }, { "x.lp.gz", "LP", 0 }, { "x.mps.bz2", "MPS", 0 },
	{ "x.lp.bz2", "LP", 0 }, { "x.mps.gz", "MPS", 0 }, { "xfile", "LP", 1 }, { "xfile2", "MPS", 0 },
};

static const char *o_exe, *o_fam, *o_mlimit;
static int is_T, o_bad, nkinds, nvec, o_own;
static long ninst;
static OptVec vecs[900];

/* ------------------------------------------------------------------ running the program */
typedef struct { int exited, code, sig, timedout; char cmd[600]; char *err; long errlen; } Run;
static volatile pid_t g_child;
static volatile sig_atomic_t g_timedout;
static void on_alarm (int s) { (void) s; g_timedout = 1; if (g_child > 0) kill (g_child, SIGKILL); }

static char *slurp (const char *path, long *len)
{
	*len = 0;
	FILE *f = fopen (path, "rb");
	if (!f) return NULL;
	size_t cap = 1 << 16, n = 0, k; char *b = malloc (cap + 1);
	while ((k = fread (b + n, 1, cap - n, f)) > 0) { n += k; if (n == cap) { if (cap >= (1u << 24)) break; cap *= 2; b = realloc (b, cap + 1); } }
	fclose (f); b[n] = 0; *len = (long) n;
	return b;
}
/* decompress according to the extension; *why set on failure */
static char *slurp_z (const char *path, long *len, const char **why)
{
	size_t pl = strlen (path), cap = 1 << 16, n = 0; int k;
	*why = NULL; *len = 0;
	if (pl > 3 && !strcmp (path + pl - 3, ".gz")) {
		gzFile g = gzopen (path, "rb");
		if (!g) { *why = "cannot open"; return NULL; }
		char *b = malloc (cap + 1);
		while ((k = gzread (g, b + n, (unsigned) (cap - n))) > 0) { n += (size_t) k; if (n == cap) { cap *= 2; b = realloc (b, cap + 1); } }
		if (k < 0) *why = "gzip stream corrupt";
		else if (gzdirect (g)) *why = "file named .gz is not gzip-compressed";
		gzclose (g); b[n] = 0; *len = (long) n;
		if (*why) { free (b); return NULL; }
		return b;
	}
	if (pl > 4 && !strcmp (path + pl - 4, ".bz2")) {
		BZFILE *z = BZ2_bzopen (path, "rb");
		if (!z) { *why = "cannot open"; return NULL; }
		char *b = malloc (cap + 1);
		while ((k = BZ2_bzread (z, b + n, (int) (cap - n))) > 0) { n += (size_t) k; if (n == cap) { cap *= 2; b = realloc (b, cap + 1); } }
		int en = 0; BZ2_bzerror (z, &en);
		if (k < 0 || (en != BZ_OK && en != BZ_STREAM_END)) *why = "bzip2 stream corrupt";
		BZ2_bzclose (z); b[n] = 0; *len = (long) n;
		if (*why) { free (b); return NULL; }
		return b;
	}
	char *b = slurp (path, len);
	if (!b) *why = "cannot open";
	return b;
}
static void put_file (const char *path, const void *data, size_t n)
{
	FILE *f = fopen (path, "wb");
	if (!f) return;
	if (n) fwrite (data, 1, n, f);
	fclose (f);
}

/* argv is NULL-terminated, argv[0] is replaced by the executable */
static void run_esolver (const char **argv, Run * r)
{
	memset (r, 0, sizeof *r);
	size_t k = 0;
	for (int i = 0; argv[i]; i++) k += (size_t) snprintf (r->cmd + k, k < sizeof r->cmd ? sizeof r->cmd - k : 0, "%s%s", i ? " " : "", i ? argv[i] : "esolver");
	posix_spawn_file_actions_t fa; posix_spawn_file_actions_init (&fa);
	posix_spawn_file_actions_addopen (&fa, 0, "/dev/null", O_RDONLY, 0);
	posix_spawn_file_actions_addopen (&fa, 1, "out.txt", O_WRONLY | O_CREAT | O_TRUNC, 0644);
	posix_spawn_file_actions_addopen (&fa, 2, "err.txt", O_WRONLY | O_CREAT | O_TRUNC, 0644);
	pid_t pid = 0; int st = 0;
	argv[0] = o_exe;
	g_timedout = 0;
	int rc = posix_spawn (&pid, o_exe, &fa, NULL, (char *const *) argv, environ);
	posix_spawn_file_actions_destroy (&fa);
	if (rc) { viol ("HARNESS", "spawn-failed", "posix_spawn(%s): %s", o_exe, strerror (rc)); r->exited = 1; r->code = 127; r->err = strdup (""); return; }
	g_child = pid; alarm (60);
	while (waitpid (pid, &st, 0) < 0 && errno == EINTR) { }
	alarm (0); g_child = 0;
	STAT ("executions");
	r->timedout = g_timedout;
	if (WIFEXITED (st)) { r->exited = 1; r->code = WEXITSTATUS (st); }
	else if (WIFSIGNALED (st)) r->sig = WTERMSIG (st);
	r->err = slurp ("err.txt", &r->errlen);
	if (!r->err) r->err = strdup ("");
	if (r->exited && !r->code) STAT ("exit_zero"); else if (r->exited) STAT ("exit_nonzero"); else STAT ("exit_signal");
}
/* the informative 400 bytes of stderr: a sanitizer report if there is one, else what follows the rlimit banner */
static const char *err_excerpt (const Run * r, char *buf)
{
	const char *s = strstr (r->err, "ERROR: AddressSanitizer");
	if (!s) s = strstr (r->err, "runtime error:");
	if (!s && (s = strstr (r->err, "Reading problem from")))
		for (s = strchr (s, '\n'); s; s = strchr (s, '\n')) {
			s++;
			if (strncmp (s, "Cur ", 4) && strncmp (s, "New ", 4) && strncmp (s, "failed with errno", 17) && strncmp (s, "in mem_limits", 13)) break;
		}
	if (!s) s = r->err;
	snprintf (buf, 401, "%s", s);
	for (char *p = buf; *p; p++) if ((unsigned char) *p < 32 || (unsigned char) *p > 126) *p = *p == '\n' ? '|' : '.';
	return buf;
}
static const char *run_outcome (const Run * r, char *buf, size_t bl)
{
	if (r->timedout) snprintf (buf, bl, "killed after the 60 s timeout");
	else if (r->exited) snprintf (buf, bl, "exit status %d", r->code);
	else snprintf (buf, bl, "killed by signal %d", r->sig);
	return buf;
}
/* abnormal end of the process, or NULL; a sanitizer build may turn a fatal signal into an ordinary exit status */
static const char *run_abnormal (const Run * r)
{
	if (r->timedout) return "timeout";
	if (!r->exited) return "killed-by-signal";
	if (r->code == 86 || r->code == 87 || strstr (r->err, "ERROR: AddressSanitizer") || strstr (r->err, "runtime error:")) return "sanitizer-report";
	return NULL;
}
/* sum of the simplex iteration counts printed in the log ("pI = a, pII = b, dI = c, dII = d") */
static long log_iterations (const char *log)
{
	long tot = 0; int a, b, c, d;
	for (const char *s = log; (s = strstr (s, "pI = ")); s += 5) if (sscanf (s, "pI = %d, pII = %d, dI = %d, dII = %d", &a, &b, &c, &d) == 4) tot += a + b + c + d;
	return tot;
}

/* ------------------------------------------------------------------ solution file */
typedef struct { char status[40], libstatus[40]; int hasval, sections; mpq_t val; mpq_t *x, *rc, *pi, *sl; int n, m; } Sol;
static Sol *sol_new (int n, int m)
{
	Sol *s = calloc (1, sizeof *s);
	s->n = n; s->m = m; mpq_init (s->val);
	s->x = mpq_arr_new (n + 1); s->rc = mpq_arr_new (n + 1); s->pi = mpq_arr_new (m + 1); s->sl = mpq_arr_new (m + 1);
	return s;
}
static void sol_free (Sol * s)
{
	if (!s) return;
	mpq_clear (s->val);
	mpq_arr_free (s->x, s->n + 1); mpq_arr_free (s->rc, s->n + 1); mpq_arr_free (s->pi, s->m + 1); mpq_arr_free (s->sl, s->m + 1);
	free (s);
}
/* GMP's allocator is the library's slab pool once QSexactStart ran, so never free() a string GMP allocated */
static char *qstr (const mpq_t q)
{
	char *b = malloc (mpz_sizeinbase (mpq_numref (q), 10) + mpz_sizeinbase (mpq_denref (q), 10) + 4);
	return mpq_get_str (b, 10, q);
}
/* exact rational in lowest terms exactly as GMP prints it; 0 ok */
static int parse_q (mpq_t q, const char *s)
{
	if (!*s || mpq_set_str (q, s, 10)) return 1;
	if (!mpz_sgn (mpq_denref (q))) { mpq_set_ui (q, 0, 1); return 1; }
	mpq_canonicalize (q);
	char *c = qstr (q);
	int bad = strcmp (c, s) != 0;
	free (c);
	return bad ? 2 : 0;
}
static int name_index (char **names, int k, const char *nm)
{
	for (int i = 0; i < k; i++) if (names[i] && !strcmp (names[i], nm)) return i;
	return -1;
}
/* parse text (modified in place); 0 ok, else why */
static int sol_parse (char *text, const RefLP * L, Sol * s, char *why, size_t wl)
{
	static const char *SEC[4] = { "VARS:", "REDUCED COST:", "PI:", "SLACK:" };
	int lineno = 0, sec = -1;
	char *seen = calloc ((size_t) (L->n + L->m + 1) * 4, 1);
#define FAIL(...) do { snprintf (why, wl, __VA_ARGS__); free (seen); return 1; } while (0)
	for (char *ln = text, *nx; ln && *ln; ln = nx, lineno++) {
		nx = strchr (ln, '\n');
		if (nx) *nx++ = 0; else FAIL ("line %d is not newline-terminated", lineno + 1);
		if (lineno == 0) {
			if (strncmp (ln, "status = ", 9)) FAIL ("first line is \"%.40s\", not \"status = ...\"", ln);
			snprintf (s->status, sizeof s->status, "%s", ln + 9);
			continue;
		}
		if (strcmp (s->status, "OPTIMAL")) FAIL ("unexpected text after the status line: \"%.40s\"", ln);
		if (lineno == 1) {
			if (strncmp (ln, "status ", 7)) FAIL ("second line is \"%.40s\", not the library's status line", ln);
			snprintf (s->libstatus, sizeof s->libstatus, "%s", ln + 7);
			continue;
		}
		if (lineno == 2) {
			if (strncmp (ln, "\tValue = ", 9)) FAIL ("third line is \"%.40s\", not \"\\tValue = ...\"", ln);
			if (parse_q (s->val, ln + 9)) FAIL ("Value \"%.60s\" is not an exact fraction in lowest terms", ln + 9);
			s->hasval = 1;
			continue;
		}
		int k;
		for (k = 0; k < 4; k++) if (!strcmp (ln, SEC[k])) break;
		if (k < 4) {
			if (k <= sec) FAIL ("section %s repeated or out of order", SEC[k]);
			sec = k; s->sections |= 1 << k;
			continue;
		}
		char *eq = strstr (ln, " = ");
		if (sec < 0 || !eq) FAIL ("line %d \"%.60s\" is neither a section header nor name = value", lineno + 1, ln);
		*eq = 0;
		int rows = sec >= 2, cnt = rows ? L->m : L->n;
		int idx = name_index (rows ? L->rname : L->cname, cnt, ln);
		if (idx < 0) FAIL ("%s lists unknown %s name \"%.40s\"", SEC[sec], rows ? "row" : "column", ln);
		if (seen[sec * (L->n + L->m + 1) + idx]++) FAIL ("%s lists %s twice", SEC[sec], ln);
		mpq_t *dst = sec == 0 ? s->x : sec == 1 ? s->rc : sec == 2 ? s->pi : s->sl;
		if (parse_q (dst[idx], eq + 3)) FAIL ("%s %s = \"%.60s\" is not an exact fraction in lowest terms", SEC[sec], ln, eq + 3);
		if (!mpq_sgn (dst[idx])) FAIL ("%s lists %s with value zero", SEC[sec], ln);
	}
	free (seen);
	if (lineno == 0) { snprintf (why, wl, "solution file is empty"); return 1; }
	if (!strcmp (s->status, "OPTIMAL")) {
		if (strcmp (s->libstatus, "OPTIMAL")) { snprintf (why, wl, "program says OPTIMAL but the library's status line says \"%s\"", s->libstatus); return 1; }
		if (!s->hasval) { snprintf (why, wl, "no Value line"); return 1; }
		int need = (L->n ? 3 : 0) | (L->m ? 12 : 0);
		if ((s->sections & need) != need) { snprintf (why, wl, "section(s) missing (present mask %d, needed %d)", s->sections, need); return 1; }
	}
	return 0;
#undef FAIL
}

/* ------------------------------------------------------------------ one run + its oracle */
static const char *truth_name (int t) { return t == TRUTH_OPTIMAL ? "OPTIMAL" : t == TRUTH_INFEASIBLE ? "INFEASIBLE" : t == TRUTH_UNBOUNDED ? "UNBOUNDED" : "UNKNOWN"; }

typedef struct { const RefLP *L; const Truth *T; int wf; const char *kindfile; SBuf dump; } Ctx;

static void report (const Ctx * c, const Run * r, const char *sig, const char *what)
{
	char ex[402], oc[80];
	viol ("C19", sig, "%s; cmd{%s} on %s -> %s; truth=%s; LP{%.3000s}; stderr{%s}", what, r->cmd, c->kindfile, run_outcome (r, oc, sizeof oc),
				truth_name (c->T->status), c->dump.s, err_excerpt (r, ex));
}
/* checks (a)-(c) on a finished run; returns the parsed solution (NULL when there is none) */
static Sol *check_run (const Ctx * c, const Run * r, const char *solfile, const char *tag)
{
	char sig[96], msg[1000], why[400];
	const RefLP *L = c->L;
	const char *ab = run_abnormal (r);
	if (ab) { snprintf (sig, sizeof sig, "%s%s", tag, ab); report (c, r, sig, "esolver ended abnormally on a readable problem"); return NULL; }
	long len; const char *zwhy;
	char *text = slurp_z (solfile, &len, &zwhy);
	if (r->code) {
		/* told apart for triage: esolver could not read a file that mpq_QSread_prob accepts (wrong type guess?) vs. any later failure */
		int rd = strstr (r->err, "Could not read lp file") || strstr (r->err, "Could not read mps file");
		snprintf (sig, sizeof sig, "%s%s", tag, rd ? "esolver-cannot-read-readable-file" : strstr (r->err, "no basis available in mpq_QSwrite_basis") ? "exit-nonzero-no-basis-to-write" : "exit-nonzero");
		snprintf (msg, sizeof msg, "esolver failed on a problem file written by the library (solution file %s)", text ? "present" : "absent");
		report (c, r, sig, msg); free (text);
		return NULL;
	}
	if (!text) { snprintf (sig, sizeof sig, "%ssolfile-unreadable", tag); snprintf (msg, sizeof msg, "exit 0 but solution file %s: %s", solfile, zwhy); report (c, r, sig, msg); return NULL; }
	tr_str (text);
	Sol *s = sol_new (L->n, L->m);
	char *copy = strdup (text);
	if (sol_parse (copy, L, s, why, sizeof why)) {
		snprintf (sig, sizeof sig, "%ssolfile-format", tag);
		snprintf (msg, sizeof msg, "solution file does not have the documented shape: %s; file{%.200s}", why, text);
		for (char *p = msg; *p; p++) if (*p == '\n' || *p == '\t') *p = '|';
		report (c, r, sig, msg);
		free (copy); free (text); sol_free (s);
		return NULL;
	}
	free (copy);
	stat_dyn ("status_", s->status);
	/* (b) status = truth */
	if (c->wf && c->T->status != TRUTH_UNKNOWN) {
		STAT ("truth_compared");
		if (strcmp (s->status, truth_name (c->T->status))) {
			snprintf (sig, sizeof sig, "%sstatus-differs-truth-%s-got-%s", tag, truth_name (c->T->status), s->status);
			snprintf (msg, sizeof msg, "solution file says \"%s\" but the LP is %s", s->status, truth_name (c->T->status));
			report (c, r, sig, msg);
		}
	}
	/* (c) certificate */
	if (!strcmp (s->status, "OPTIMAL")) {
		STAT ("cert_checked");
		SF *S = sf_from_ref (L);
		mpq_t *z = mpq_arr_new (L->n + L->m + 1);
		for (int j = 0; j < L->n; j++) mpq_set (z[j], s->x[j]);
		for (int i = 0; i < L->m; i++) mpq_set (z[L->n + i], s->sl[i]);
		if (oopt_check (S, z, s->pi, s->rc, s->val, why, sizeof why)) {
			snprintf (sig, sizeof sig, "%scert-invalid", tag);
			snprintf (msg, sizeof msg, "listed solution is not an exact optimality certificate (%s); file{%.300s}", why, text);
			for (char *p = msg; *p; p++) if (*p == '\n' || *p == '\t') *p = '|';
			report (c, r, sig, msg);
		}
		if (c->T->status == TRUTH_OPTIMAL && !mpq_equal (s->val, c->T->val)) {
			char *a = qstr (s->val), *b = qstr (c->T->val);
			snprintf (sig, sizeof sig, "%svalue-differs", tag);
			snprintf (msg, sizeof msg, "Value = %s but the true optimum is %s", a, b);
			report (c, r, sig, msg); free (a); free (b);
		}
		mpq_arr_free (z, L->n + L->m + 1); sf_free (S);
	}
	free (text);
	return s;
}

static int build_argv (const char **av, const OptVec * v, int kind, const char *file, int phase)
{
	static char pb[8], db[8], Pb[8];
	int k = 0;
	av[k++] = "esolver";
	if (o_mlimit[0]) { av[k++] = "-m"; av[k++] = o_mlimit; }
	if (kind >= 0 && KINDS[kind].L) av[k++] = "-L";
	av[k++] = "-O"; av[k++] = phase == 2 ? SOLNAME2[v->o] : SOLNAME[v->o];
	if (v->p) { snprintf (pb, sizeof pb, "%d", PVAL[v->p]); av[k++] = "-p"; av[k++] = pb; }
	if (v->d) { snprintf (db, sizeof db, "%d", DVAL[v->d]); av[k++] = "-d"; av[k++] = db; }
	if (v->S) av[k++] = "-S";
	if (v->P) { snprintf (Pb, sizeof Pb, "%d", BITS[v->P]); av[k++] = "-P"; av[k++] = Pb; }
	if (phase == 1) { av[k++] = "-b"; av[k++] = "out.bas"; }
	if (phase == 2) { av[k++] = "-B"; av[k++] = "out.bas"; }
	av[k++] = file; av[k] = NULL;
	return k;
}
static void clean_outputs (void)
{
	static const char *F[] = { "sol.txt", "sol.txt.gz", "sol.txt.bz2", "sol2.txt", "sol2.txt.gz", "sol2.txt.bz2", "out.bas", "out.txt", "err.txt", 0 };
	for (int i = 0; F[i]; i++) unlink (F[i]);
}

/* a library-written file that the library's own reader refuses is not a "readable file": only (e) applies */
static void run_unreadable (const RefLP * L, int kind)
{
	const char *av[24]; Run r; char oc[80], ex[402], sig[96];
	SBuf d; sb_init (&d); ref_dump (&d, L, 0);
	build_argv (av, &vecs[0], kind, KINDS[kind].file, 0);
	run_esolver (av, &r);
	tr_int (r.exited); tr_int (r.code); tr_int (r.sig);
	const char *cls = run_abnormal (&r) ? run_abnormal (&r) : r.code == 0 ? "exit-zero" : NULL;
	if (cls) {
		snprintf (sig, sizeof sig, "malformed-%s:library-written-unreadable", cls);
		viol ("C19", sig, "the library's reader rejects this library-written file, esolver must fail cleanly: cmd{%s} on %s -> %s; LP{%.3000s}; stderr{%s}", r.cmd, KINDS[kind].file, run_outcome (&r, oc, sizeof oc), d.s, err_excerpt (&r, ex));
	} else STAT ("unreadable_rejected_cleanly");
	if (g_verbose) vlog ("%s on %s (reader rejects it) -> %s\n--- stderr ---\n%s\n", r.cmd, KINDS[kind].file, run_outcome (&r, oc, sizeof oc), r.err);
	free (r.err); sb_free (&d);
}


/* ------------------------------------------------------------------ own=1: the harness writes the input file itself
 * (plain LP or fixed-free MPS text, no library code involved) under names that are legal but unusual: what esolver prints
 * is then compared with names the library never produced.  Returns 0 when the instance cannot be expressed (empty row,
 * unused column, ranged row in LP). */
static const char *ODDC[4] = { "pct%d", "sh%%re", "x%5.2fy", "v.1{a}" };
static const char *ODDR[4] = { "r%x", "c%%1", "lim&2", "row~3" };
static void put_q (FILE * f, const mpq_t q) { char *t = q_str (q); fputs (t, f); free (t); }
static int own_render (const RefLP * L, const char *path, int mps)
{
	if (L->n > 4 || L->m > 4 || L->m == 0) return 0;
	for (int r = 0; r < L->m; r++) { int nz = 0; for (int j = 0; j < L->n; j++) nz += mpq_sgn (REF_A (L, r, j)) != 0; if (!nz) return 0; if (L->sense[r] == 'R' && !mps) return 0; }
	for (int j = 0; j < L->n; j++) { int used = mpq_sgn (L->obj[j]) != 0; for (int r = 0; r < L->m; r++) used |= mpq_sgn (REF_A (L, r, j)) != 0; if (!used) return 0; }
	FILE *f = fopen (path, "w");
	if (!f) return 0;
	mpq_t t; mpq_init (t);
	if (!mps) {
		fprintf (f, "%s\n obj:", L->objsense == REF_MAX ? "Maximize" : "Minimize");
		for (int j = 0; j < L->n; j++) if (mpq_sgn (L->obj[j])) { fputs (mpq_sgn (L->obj[j]) < 0 ? " - " : " + ", f); mpq_abs (t, L->obj[j]); put_q (f, t); fprintf (f, " %s", L->cname[j]); }
		fprintf (f, "\nSubject To\n");
		for (int r = 0; r < L->m; r++) {
			fprintf (f, " %s:", L->rname[r]);
			for (int j = 0; j < L->n; j++) if (mpq_sgn (REF_A (L, r, j))) { fputs (mpq_sgn (REF_A (L, r, j)) < 0 ? " - " : " + ", f); mpq_abs (t, REF_A (L, r, j)); put_q (f, t); fprintf (f, " %s", L->cname[j]); }
			fprintf (f, " %s ", L->sense[r] == 'L' ? "<=" : L->sense[r] == 'G' ? ">=" : "="); put_q (f, L->rhs[r]); fputc ('\n', f);
		}
		fprintf (f, "Bounds\n");
		for (int j = 0; j < L->n; j++) {
			if (L->loinf[j] && L->upinf[j]) fprintf (f, " %s free\n", L->cname[j]);
			else {
				if (L->loinf[j]) fprintf (f, " -inf <= %s\n", L->cname[j]); else if (mpq_sgn (L->lo[j])) { fputc (' ', f); put_q (f, L->lo[j]); fprintf (f, " <= %s\n", L->cname[j]); }
				if (!L->upinf[j]) { fprintf (f, " %s <= ", L->cname[j]); put_q (f, L->up[j]); fputc ('\n', f); }
			}
		}
		fprintf (f, "End\n");
	} else {
		fprintf (f, "NAME own\nOBJSENSE\n %s\nROWS\n N obj\n", L->objsense == REF_MAX ? "MAX" : "MIN");
		for (int r = 0; r < L->m; r++) fprintf (f, " %c %s\n", L->sense[r] == 'R' ? 'G' : L->sense[r], L->rname[r]);
		fprintf (f, "COLUMNS\n");
		for (int j = 0; j < L->n; j++) {
			if (mpq_sgn (L->obj[j])) { fprintf (f, " %s obj ", L->cname[j]); put_q (f, L->obj[j]); fputc ('\n', f); }
			for (int r = 0; r < L->m; r++) if (mpq_sgn (REF_A (L, r, j))) { fprintf (f, " %s %s ", L->cname[j], L->rname[r]); put_q (f, REF_A (L, r, j)); fputc ('\n', f); }
		}
		fprintf (f, "RHS\n");
		for (int r = 0; r < L->m; r++) if (mpq_sgn (L->rhs[r])) { fprintf (f, " rhs %s ", L->rname[r]); put_q (f, L->rhs[r]); fputc ('\n', f); }
		int anyr = 0; for (int r = 0; r < L->m; r++) anyr |= L->sense[r] == 'R';
		if (anyr) { fprintf (f, "RANGES\n"); for (int r = 0; r < L->m; r++) if (L->sense[r] == 'R') { fprintf (f, " rng %s ", L->rname[r]); put_q (f, L->range[r]); fputc ('\n', f); } }
		fprintf (f, "BOUNDS\n");
		for (int j = 0; j < L->n; j++) {
			if (L->loinf[j] && L->upinf[j]) fprintf (f, " FR bnd %s\n", L->cname[j]);
			else {
				if (L->loinf[j]) fprintf (f, " MI bnd %s\n", L->cname[j]); else if (mpq_sgn (L->lo[j])) { fprintf (f, " LO bnd %s ", L->cname[j]); put_q (f, L->lo[j]); fputc ('\n', f); }
				if (!L->upinf[j]) { fprintf (f, " UP bnd %s ", L->cname[j]); put_q (f, L->up[j]); fputc ('\n', f); }
			}
		}
		fprintf (f, "ENDATA\n");
	}
	mpq_clear (t);
	fclose (f);
	return 1;
}

static void run_instance (long inst, int kind, const OptVec * v)
{
	char label[128] = "", why[300];
	RefLP *L0 = is_T ? tfam_decode (inst, label, sizeof label) : lpfam_decode (inst), *L = NULL;
	if (!L0) { STAT ("skipped_noncanonical"); return; }
	int first = v == &vecs[0];
	Truth *T = NULL;
	Ctx c; memset (&c, 0, sizeof c); sb_init (&c.dump);
	clean_outputs ();
	for (int i = 0; i < 8; i++) unlink (KINDS[i].file);
	mpq_QSprob p = NULL;
	if (o_own) {
		/* the harness writes the file; the model is the instance itself under odd names */
		for (int j = 0; j < L0->n && j < 4; j++) ref_set_cname (L0, j, ODDC[j]);
		for (int r = 0; r < L0->m && r < 4; r++) ref_set_rname (L0, r, ODDR[r]);
		if (kind > 1 || !own_render (L0, KINDS[kind].file, kind == 1)) { if (first) STAT ("skipped_not_expressible"); goto DONE; }
		L = ref_clone (L0);
		goto HAVE_MODEL;
	}
	/* the LIBRARY writes the problem file ... */
	p = qsx_build (L0, ROUTE_LOAD, 0);
	int wrote = 0;
	if (p) { qsx_log_reset (); wrote = mpq_QSwrite_prob (p, KINDS[kind].file, KINDS[kind].type) == 0; mpq_QSfree_prob (p); }
	struct stat sb;
	if (!p || !wrote || stat (KINDS[kind].file, &sb) || !sb.st_size) { if (first) STAT ("skipped_unwritable"); goto DONE; }
	/* ... and the model is what the library reads back from it, so that file round-trip defects (C08-C10) stay out of C19 */
	p = mpq_QSread_prob (KINDS[kind].file, KINDS[kind].type);
	if (!p) {
		if (first) { STAT ("instances_unreadable"); stat_dyn ("instances_unreadable_", !L0->m ? "norows" : KINDS[kind].type); run_unreadable (L0, kind); }
		goto DONE;
	}
	L = qsx_readback (p, why, sizeof why);
	mpq_QSfree_prob (p);
	if (!L) { viol ("HARNESS", "readback-failed", "cannot read the re-read problem back through the API: %s", why); goto DONE; }
HAVE_MODEL:
	c.L = L; c.wf = ref_wellformed (L); c.kindfile = KINDS[kind].file;
	ref_dump (&c.dump, L, 1);
	T = ref_solve (L); c.T = T;
	if (T->selfcheck_failed) { STAT ("ref_selfcheck_failed"); viol ("HARNESS", "ref-selfcheck", "reference solver failed its own witness check: LP{%.3000s}", c.dump.s); }
	if (first) {
		STAT ("instances");
		int nontrivial = 0;
		for (int r = 0; r < L->m && !nontrivial; r++) for (int j = 0; j < L->n; j++) if (mpq_sgn (REF_A (L, r, j))) { nontrivial = 1; break; }
		if (nontrivial) STAT ("instances_nontrivial");
		if (!c.wf) STAT ("instances_illformed");
		if (ref_cmp (L0, L, 1, why, sizeof why)) STAT ("instances_file_differs_from_model");
		stat_dyn ("truth_", truth_name (T->status));
	}
	const char *av[24];
	Run r1, r2; memset (&r2, 0, sizeof r2);
	build_argv (av, v, kind, KINDS[kind].file, v->b ? 1 : 0);
	run_esolver (av, &r1);
	tr_int (r1.exited); tr_int (r1.code); tr_int (r1.sig);
	Sol *s1 = check_run (&c, &r1, SOLNAME[v->o], ""), *s2 = NULL;
	if (g_verbose) { char oc[80]; vlog ("%s on %s -> %s status=%s\n--- stderr ---\n%s\n", r1.cmd, c.kindfile, run_outcome (&r1, oc, sizeof oc), s1 ? s1->status : "(none)", r1.err); }
	/* (d) basis round trip */
	if (v->b && s1) {
		STAT ("basis_roundtrips");
		char msg[500];
		long bl; char *bas = slurp ("out.bas", &bl);
		if (!bas || !bl || !strstr (bas, "ENDATA")) {
			snprintf (msg, sizeof msg, "-b out.bas: basis file %s after a run reporting %s", !bas ? "was not written" : !bl ? "is empty" : "has no ENDATA", s1->status);
			/* the property speaks of the basis of an OPTIMAL run; an infeasible/unbounded verdict may be reached without any basis */
			if (strcmp (s1->status, "OPTIMAL")) STAT ("basis_not_written_for_nonoptimal_status");
			else report (&c, &r1, "basis-roundtrip", msg);
		} else {
			tr_str (bas);
			build_argv (av, v, kind, KINDS[kind].file, 2);
			run_esolver (av, &r2);
			int opt = !strcmp (s1->status, "OPTIMAL");
			s2 = check_run (&c, &r2, SOLNAME2[v->o], opt ? "basis-roundtrip-" : "basis-roundtrip-nonoptimal-");
			if (g_verbose) { char oc[80]; vlog ("basis{%s}\n%s -> %s status=%s\n--- stderr ---\n%s\n", bas, r2.cmd, run_outcome (&r2, oc, sizeof oc), s2 ? s2->status : "(none)", r2.err); }
			if (s2 && (strcmp (s1->status, s2->status) || (opt && !mpq_equal (s1->val, s2->val)))) {
				snprintf (msg, sizeof msg, "run with -b reported %s, the rerun from that basis with -B reports %s%s; basis{%.150s}", s1->status, s2->status, strcmp (s1->status, s2->status) ? "" : " with another value", bas);
				for (char *q = msg; *q; q++) if (*q == '\n') *q = '|';
				report (&c, &r2, opt ? "basis-roundtrip" : "basis-roundtrip-nonoptimal", msg);
			}
			if (s2 && opt && !strcmp (s2->status, "OPTIMAL")) {
				long it = log_iterations (r2.err);
				if (it) {
					STAT ("basis_rerun_pivoted"); stat_max ("basis_rerun_iterations", it);
					note ("basis-rerun-pivoted", "rerun from the written basis needed %ld simplex iterations: cmd{%s} on %s; LP{%.1500s}", it, r2.cmd, c.kindfile, c.dump.s);
				} else STAT ("basis_rerun_zero_iterations");
			}
		}
		free (bas);
	}
	if (sample_wanted ()) sample ("%s%sLP{%.600s} %s: %s -> exit %d, status %s%s (truth %s)", label, label[0] ? ": " : "", c.dump.s, c.kindfile, r1.cmd, r1.code, s1 ? s1->status : "(none)", s2 ? ", rerun from the written basis done" : "", truth_name (T->status));
	sol_free (s1); sol_free (s2);
	free (r1.err); free (r2.err);
DONE:
	sb_free (&c.dump);
	if (T) truth_free (T);
	if (L) ref_free (L);
	ref_free (L0);
}

/* ------------------------------------------------------------------ (e) malformed / unreadable inputs */
static const char GOOD_LP[] = "Minimize\n obj: x0 + 2 x1\nSubject To\n c0: x0 + x1 >= 1\n c1: x0 - x1 <= 3\nBounds\n x0 <= 4\nEnd\n";
static const char GOOD_MPS[] = "NAME t\nROWS\n N obj\n G c0\n L c1\nCOLUMNS\n x0 obj 1 c0 1\n x0 c1 1\n x1 obj 2 c0 1\n x1 c1 -1\nRHS\n rhs c0 1 c1 3\nBOUNDS\n UP bnd x0 4\nENDATA\n";
typedef struct { const char *name, *file, *content; int mode; const char *extra[4]; int any_exit; } BadCase;
/* mode: 0 plain content, 1 no file, 2 directory, 3 pseudo-random bytes, 4 gzip of GOOD_LP damaged in the middle,
 * 5 gzip of GOOD_LP cut in half, 6 bzip2 of GOOD_MPS damaged, 7 valid LP (the trouble is in extra[]) */
static const BadCase BAD[] = {
	{ "missing-lp", "nofile.lp", 0, 1, { 0 }, 0 },
	{ "missing-mps", "nofile.mps", 0, 1, { 0 }, 0 },
	{ "missing-noext", "nofile", 0, 1, { 0 }, 0 },
	{ "missing-lp-with-b", "nofile.lp", 0, 1, { "-b", "out.bas", 0 }, 0 },
	{ "empty-lp", "e.lp", "", 0, { 0 }, 0 },
	{ "empty-mps", "e.mps", "", 0, { 0 }, 0 },
	{ "truncated-lp", "t.lp", "Minimize\n obj: x0 + 2 x1\nSubject To\n c0: x0 + x1 >=", 0, { 0 }, 0 },
	{ "truncated-lp-with-b", "t.lp", "Minimize\n obj: x0 + 2 x1\nSubject To\n c0: x0 + x1 >=", 0, { "-b", "out.bas", 0 }, 0 },
	{ "truncated-mps", "t.mps", "NAME t\nROWS\n N obj\n G c0\nCOLUMNS\n x0 obj 1 c0", 0, { 0 }, 0 },
	{ "garbage-lp", "g.lp", 0, 3, { 0 }, 0 },
	{ "garbage-mps", "g.mps", 0, 3, { 0 }, 0 },
	{ "garbage-noext", "gfile", 0, 3, { 0 }, 0 },
	{ "mps-given-with-L", "m.mps", GOOD_MPS, 0, { "-L", 0 }, 0 },
	{ "lp-without-L", "lpfile", GOOD_LP, 0, { 0 }, 0 },
	{ "lp-named-mps", "l.mps", GOOD_LP, 0, { 0 }, 0 },
	{ "mps-named-lp", "m.lp", GOOD_MPS, 0, { 0 }, 0 },
	{ "directory-lp", "d.lp", 0, 2, { 0 }, 0 },
	{ "directory-mps", "d.mps", 0, 2, { 0 }, 0 },
	{ "corrupt-gz", "c.lp.gz", 0, 4, { 0 }, 0 },
	{ "cut-gz", "h.lp.gz", 0, 5, { 0 }, 0 },
	{ "corrupt-bz2", "c.mps.bz2", 0, 6, { 0 }, 0 },
	{ "plain-named-bz2", "p.lp.bz2", GOOD_LP, 0, { 0 }, 0 },
	{ "lp-syntax-error", "s.lp", "Minimize\n obj: x0 + + \nSubject To\n c0: x0 >= 1\nEnd\n", 0, { 0 }, 0 },
	{ "lp-zero-denominator", "z.lp", "Minimize\n obj: x0\nSubject To\n c0: x0 >= 1/0\nEnd\n", 0, { 0 }, 0 },
	{ "lp-no-end-no-rows", "n.lp", "Minimize\n obj: x0\n", 0, { 0 }, 0 },
	{ "mps-unknown-row", "u.mps", "NAME t\nROWS\n N obj\n G c0\nCOLUMNS\n x0 obj 1 zz 1\nRHS\n rhs c0 1\nENDATA\n", 0, { 0 }, 0 },
	{ "mps-bad-number", "b.mps", "NAME t\nROWS\n N obj\n G c0\nCOLUMNS\n x0 obj 1 c0 abc\nRHS\n rhs c0 1\nENDATA\n", 0, { 0 }, 0 },
	{ "basis-file-missing", "ok.lp", GOOD_LP, 7, { "-B", "nobasis.bas", 0 }, 0 },
	{ "basis-file-garbage", "ok.lp", GOOD_LP, 7, { "-B", "garbage.bas", 0 }, 0 },
	{ "output-unwritable", "ok.lp", GOOD_LP, 7, { "-O", "/nonexistent-dir/sol.txt", 0 }, 1 },
	{ "unknown-option", "ok.lp", GOOD_LP, 7, { "-Z", 0 }, 0 },
	{ "no-file-argument", NULL, 0, 7, { 0 }, 0 },
};
#define NBAD ((long) (sizeof BAD / sizeof BAD[0]))

static void random_bytes (unsigned char *b, size_t n)
{
	uint64_t s = 0x9e3779b97f4a7c15ULL;
	for (size_t i = 0; i < n; i++) { s = s * 6364136223846793005ULL + 1442695040888963407ULL; b[i] = (unsigned char) (s >> 56); }
}
static void run_bad (long k)
{
	const BadCase *B = &BAD[k];
	unsigned char buf[4096]; size_t n = 0;
	clean_outputs ();
	STAT ("malformed_cases");
	if (B->file) {
		struct stat sb;
		if (!stat (B->file, &sb)) { if (S_ISDIR (sb.st_mode)) rmdir (B->file); else unlink (B->file); }
		switch (B->mode) {
		case 0: case 7: put_file (B->file, B->content, strlen (B->content)); break;
		case 1: break;
		case 2: mkdir (B->file, 0755); break;
		case 3: random_bytes (buf, 300); put_file (B->file, buf, 300); break;
		case 4: case 5: {
				gzFile g = gzopen ("tmp.gz", "wb9"); gzwrite (g, GOOD_LP, (unsigned) strlen (GOOD_LP)); gzclose (g);
				long l; char *z = slurp ("tmp.gz", &l); unlink ("tmp.gz");
				if (B->mode == 4) { for (long i = l / 2; i < l / 2 + 6 && i < l; i++) z[i] = (char) (z[i] ^ 0x5a); put_file (B->file, z, (size_t) l); }
				else put_file (B->file, z, (size_t) l / 2);
				free (z);
				break;
			}
		case 6: {
				unsigned int dl = sizeof buf;
				BZ2_bzBuffToBuffCompress ((char *) buf, &dl, (char *) GOOD_MPS, (unsigned) strlen (GOOD_MPS), 9, 0, 0);
				n = dl;
				for (size_t i = n / 2; i < n / 2 + 6 && i < n; i++) buf[i] ^= 0x5a;
				put_file (B->file, buf, n);
				break;
			}
		}
	}
	if (!strcmp (B->name, "basis-file-garbage")) { random_bytes (buf, 200); put_file ("garbage.bas", buf, 200); }
	const char *av[24]; int a = 0;
	av[a++] = "esolver";
	if (o_mlimit[0]) { av[a++] = "-m"; av[a++] = o_mlimit; }
	int hasO = 0;
	for (int i = 0; i < 4 && B->extra[i]; i++) { if (!strcmp (B->extra[i], "-O")) hasO = 1; av[a++] = B->extra[i]; }
	if (!hasO) { av[a++] = "-O"; av[a++] = "sol.txt"; }
	if (B->file) av[a++] = B->file;
	av[a] = NULL;
	Run r; run_esolver (av, &r);
	tr_int (r.exited); tr_int (r.code); tr_int (r.sig);
	char ex[402], oc[80], sig[96];
	long sl; char *sol = slurp ("sol.txt", &sl);
	if (g_verbose) vlog ("%s: %s -> %s\n--- stderr ---\n%s\n", B->name, r.cmd, run_outcome (&r, oc, sizeof oc), r.err);
	const char *cls = run_abnormal (&r) ? run_abnormal (&r) : (r.code == 0 && !B->any_exit) ? "exit-zero" : NULL;
	if (cls) {
		snprintf (sig, sizeof sig, "malformed-%s:%s", cls, B->name);
		viol ("C19", sig, "malformed/unreadable input case %s: cmd{%s} -> %s (expected a non-zero exit status and no signal); solution file{%.120s}; stderr{%s}",
					B->name, r.cmd, run_outcome (&r, oc, sizeof oc), sol ? sol : "(absent)", err_excerpt (&r, ex));
	} else STAT ("malformed_rejected_cleanly");
	if (sample_wanted ()) sample ("malformed case %s: %s -> %s", B->name, r.cmd, run_outcome (&r, oc, sizeof oc));
	free (sol); free (r.err);
}

/* ------------------------------------------------------------------ family */
static void es_init (void)
{
	o_exe = opt_str ("esolver", "");
	if (!o_exe[0] || access (o_exe, X_OK)) { fprintf (stderr, "esol: --opt esolver=/path/to/esolver is required (got \"%s\")\n", o_exe); exit (2); }
	o_fam = opt_str ("fam", "S0q1");
	o_mlimit = opt_str ("mlimit", "");
	o_bad = (int) opt_int ("bad", 0);
	o_own = (int) opt_int ("own", 0);
	is_T = !strcmp (o_fam, "T");
	if (!is_T) lpfam_select (o_fam);
	ninst = is_T ? tfam_count () : lpfam_count ();
	nkinds = !strcmp (opt_str ("kinds", "all"), "basic") ? 2 : 8;
	int dev = (int) opt_int ("dev", 1);
	nvec = 0;
	/* vectors ordered by number of deviations from the default, then lexicographically */
	for (int want = 0; want <= 6 && want <= dev; want++)
		for (int code = 0; code < 900; code++) {
			int dgt[6], c = code, nz = 0;
			for (int a = 5; a >= 0; a--) { dgt[a] = c % AX_SIZE[a]; c /= AX_SIZE[a]; nz += dgt[a] != 0; }
			if (nz != want) continue;
			OptVec *v = &vecs[nvec++];
			v->o = dgt[0]; v->p = dgt[1]; v->d = dgt[2]; v->S = dgt[3]; v->P = dgt[4]; v->b = dgt[5];
		}
	struct sigaction sa; memset (&sa, 0, sizeof sa); sa.sa_handler = on_alarm; sigaction (SIGALRM, &sa, NULL);
	qsx_start ();
}
static long es_count (void) { return ninst * nkinds * nvec + (o_bad ? NBAD : 0); }
static void es_run (long item)
{
	long reg = ninst * nkinds * nvec;
	if (item >= reg) { run_bad (item - reg); return; }
	int vi = (int) (item % nvec); item /= nvec;
	int kind = (int) (item % nkinds); item /= nkinds;
	run_instance (item, kind, &vecs[vi]);
}
static void es_finish (void) { qsx_stop (); }

Family fam_esol = { "esol", "esolver executable on library-written files x option vectors (C19); --opt esolver=PATH --opt fam=S0q1|T.. --opt dev=0|1|2|9 --opt kinds=all|basic --opt bad=1 --opt mlimit=N", es_init, es_count, es_run, es_finish, 150 };
