/* File formats: C08 (LP write->read), C09 (MPS write->read, LP<->MPS conversions),
 * C10 (text -> exact problem; number scanner).
 *  family "wr":  problem = plain 2x2 base + a subset of <= K feature deviations; written with the
 *                library, read back, compared by name / structure with the reference model.
 *  family "rd":  base problem x rendering-choice vector with <= K lexical deviations, rendered by an
 *                independent renderer (below), read with the library, compared with the model.
 *  family "num": every string of length <= L over a token alphabet through the number scanner,
 *                compared with an independent reference of the literal grammar. */
#include <stdlib.h>
#include <string.h>
#include <unistd.h>
#include <ctype.h>
#include "qsx.h"
#include "lpdata_mpq.h"

#define BIGS "10000000000000000000000000000000000000001"
static void Qs (mpq_t q, const char *s) { q_set_str (q, s); }

/* ====================================================================== comparison */
typedef struct { int allow_split; int drop_empty; int names_exact; } CmpOpt;
static int row_empty (const RefLP * L, int r) { for (int c = 0; c < L->n; c++) if (mpq_sgn (REF_A (L, r, c))) return 0; return 1; }
/* row interval [lo,hi] of a model row */
static void row_interval (const RefLP * L, int r, mpq_t lo, int *loinf, mpq_t hi, int *hiinf)
{
	*loinf = *hiinf = 0;
	switch (L->sense[r]) {
	case 'L': *loinf = 1; mpq_set (hi, L->rhs[r]); break;
	case 'G': *hiinf = 1; mpq_set (lo, L->rhs[r]); break;
	case 'E': mpq_set (lo, L->rhs[r]); mpq_set (hi, L->rhs[r]); break;
	default: mpq_set (lo, L->rhs[r]); mpq_add (hi, L->rhs[r], L->range[r]); break;
	}
}
static int rows_coef_equal (const RefLP * G, int gr, const RefLP * M, int mr, const int *colmap)
{
	for (int c = 0; c < M->n; c++) if (!mpq_equal (REF_A (M, mr, c), REF_A (G, gr, colmap[c]))) return 0;
	return 1;
}
static int row_matches (const RefLP * G, int gr, const RefLP * M, int mr, const int *colmap, int strict_kind)
{
	if (!rows_coef_equal (G, gr, M, mr, colmap)) return 0;
	if (strict_kind) {
		if (G->sense[gr] != M->sense[mr] || !mpq_equal (G->rhs[gr], M->rhs[mr])) return 0;
		if (M->sense[mr] == 'R' && !mpq_equal (G->range[gr], M->range[mr])) return 0;
		return 1;
	}
	mpq_t a, b, c, d; mpq_init (a); mpq_init (b); mpq_init (c); mpq_init (d);
	int ai, bi, ci, di, ok;
	row_interval (G, gr, a, &ai, b, &bi); row_interval (M, mr, c, &ci, d, &di);
	ok = ai == ci && bi == di && (ai || mpq_equal (a, c)) && (bi || mpq_equal (b, d));
	mpq_clear (a); mpq_clear (b); mpq_clear (c); mpq_clear (d);
	return ok;
}
/* try to match all rows under a fixed column map; returns 0 on success */
static int match_rows (const RefLP * G, const RefLP * M, const int *colmap, const CmpOpt * o, char *why, size_t wl)
{
	int *used = calloc ((size_t) G->m + 1, sizeof (int)), *mdone = calloc ((size_t) M->m + 1, sizeof (int)), rv = 0;
	mpq_t hi; mpq_init (hi);
	for (int pass = 0; pass < 2 && !rv; pass++) {
		for (int r = 0; r < M->m && !rv; r++) {
			if (mdone[r] || (o->drop_empty && row_empty (M, r))) continue;
			int byname = -1;
			if (M->rname[r]) for (int g = 0; g < G->m; g++) if (!used[g] && G->rname[g] && !strcmp (G->rname[g], M->rname[r])) { byname = g; break; }
			if ((pass == 0) != (byname >= 0)) continue;      /* pass 0: rows found by name; pass 1: the others structurally */
			int found = -1, second = -1;
			for (int g = 0; g < G->m && found < 0; g++) {
				if (used[g] || (byname >= 0 && g != byname)) continue;
				if (row_matches (G, g, M, r, colmap, !o->allow_split)) found = g;
				else if (o->allow_split && M->sense[r] == 'R' && rows_coef_equal (G, g, M, r, colmap) && G->sense[g] == 'G' && mpq_equal (G->rhs[g], M->rhs[r])) {
					mpq_add (hi, M->rhs[r], M->range[r]);
					for (int h = 0; h < G->m; h++) if (!used[h] && h != g && G->sense[h] == 'L' && mpq_equal (G->rhs[h], hi) && rows_coef_equal (G, h, M, r, colmap)) { second = h; break; }
					if (second >= 0) found = g;
				}
			}
			if (found < 0) { snprintf (why, wl, "model row %d (%s) has no counterpart in the problem read back", r, M->rname[r] ? M->rname[r] : "unnamed"); rv = 1; break; }
			if (o->names_exact && M->rname[r] && byname < 0) { snprintf (why, wl, "row name '%s' is missing", M->rname[r]); rv = 1; break; }
			used[found] = 1; if (second >= 0) used[second] = 1;
			mdone[r] = 1;
		}
	}
	for (int g = 0; g < G->m && !rv; g++) if (!used[g] && !(o->drop_empty && row_empty (G, g))) { snprintf (why, wl, "problem read back has an extra row %d (%s)", g, G->rname[g] ? G->rname[g] : "?"); rv = 1; }
	free (used); free (mdone); mpq_clear (hi);
	return rv;
}
static int cols_equal (const RefLP * G, int g, const RefLP * M, int c)
{
	if (!mpq_equal (G->obj[g], M->obj[c])) return 0;
	if (G->loinf[g] != M->loinf[c] || (!M->loinf[c] && !mpq_equal (G->lo[g], M->lo[c]))) return 0;
	if (G->upinf[g] != M->upinf[c] || (!M->upinf[c] && !mpq_equal (G->up[g], M->up[c]))) return 0;
	if (!G->isint[g] != !M->isint[c]) return 0;
	return 1;
}
static int try_perm (const RefLP * G, const RefLP * M, int *colmap, int *gused, int k, const int *unm, int nunm, const CmpOpt * o, char *why, size_t wl)
{
	if (k == nunm) return match_rows (G, M, colmap, o, why, wl);
	int c = unm[k];
	for (int g = 0; g < G->n; g++) {
		if (gused[g] || !cols_equal (G, g, M, c)) continue;
		gused[g] = 1; colmap[c] = g;
		if (!try_perm (G, M, colmap, gused, k + 1, unm, nunm, o, why, wl)) return 0;
		gused[g] = 0;
	}
	if (!why[0]) snprintf (why, wl, "no column of the problem read back corresponds to model column %d (%s)", c, M->cname[c] ? M->cname[c] : "?");
	return 1;
}
/* 0 = the problem G read back equals the model M (by name where names survive, else structurally) */
static int cmp_problem (const RefLP * G, const RefLP * M, const CmpOpt * o, char *why, size_t wl)
{
	why[0] = 0;
	if (G->objsense != M->objsense) { snprintf (why, wl, "objective sense differs"); return 1; }
	if (G->n != M->n) { snprintf (why, wl, "column count %d, model %d", G->n, M->n); return 1; }
	int *colmap = calloc ((size_t) M->n + 1, sizeof (int)), *gused = calloc ((size_t) G->n + 1, sizeof (int)), *unm = calloc ((size_t) M->n + 1, sizeof (int)), nunm = 0, rv = 0;
	for (int c = 0; c < M->n && !rv; c++) {
		int g = -1;
		if (M->cname[c]) for (int k = 0; k < G->n; k++) if (!gused[k] && G->cname[k] && !strcmp (G->cname[k], M->cname[c])) { g = k; break; }
		if (g < 0) { if (o->names_exact) { snprintf (why, wl, "column name '%s' is missing", M->cname[c]); rv = 1; } unm[nunm++] = c; continue; }
		if (!cols_equal (G, g, M, c)) { snprintf (why, wl, "column '%s': objective coefficient, bounds or integrality differ", M->cname[c]); rv = 1; break; }
		gused[g] = 1; colmap[c] = g;
	}
	if (!rv) { if (nunm > 6) { snprintf (why, wl, "too many renamed columns to match"); rv = 2; } else rv = try_perm (G, M, colmap, gused, 0, unm, nunm, o, why, wl); }
	free (colmap); free (gused); free (unm);
	return rv;
}

/* ====================================================================== feature deviations (family wr) */
static const char *NAMES[] = { "x9", "2x", ".x", "a^b", "a b", "a:b", "st", "end", "free", "inf", "e1", "c1", "obj", "@LONG", "freeze", "infinite", "endx" };
#define NNAMES 17
enum { D_ROWKIND, D_BOUND, D_COEF, D_RHS, D_OBJ, D_MAX, D_INT, D_CNAME, D_RNAME, D_EXTRACOL, D_EXTRAROW, D_EMPTYROW, D_WIDE, D_TARGET, D_ROUTE };
typedef struct { int axis, target, val; } Dev;
static Dev devs[200]; static int ndev;
static void build_devs (void)
{
	ndev = 0;
#define ADD(a,t,v) do { devs[ndev].axis = a; devs[ndev].target = t; devs[ndev].val = v; ndev++; } while (0)
	for (int r = 0; r < 2; r++) for (int v = 0; v < 5; v++) ADD (D_ROWKIND, r, v);
	for (int c = 0; c < 2; c++) for (int v = 0; v < 8; v++) ADD (D_BOUND, c, v);
	for (int k = 0; k < 2; k++) for (int v = 0; v < 6; v++) ADD (D_COEF, k, v);
	for (int r = 0; r < 2; r++) for (int v = 0; v < 4; v++) ADD (D_RHS, r, v);
	for (int c = 0; c < 2; c++) for (int v = 0; v < 4; v++) ADD (D_OBJ, c, v);
	ADD (D_MAX, 0, 0);
	for (int c = 0; c < 2; c++) ADD (D_INT, c, 0);
	for (int c = 0; c < 2; c++) for (int v = 0; v < NNAMES; v++) ADD (D_CNAME, c, v);
	for (int r = 0; r < 2; r++) for (int v = 0; v < NNAMES; v++) ADD (D_RNAME, r, v);
	ADD (D_EXTRACOL, 0, 0); ADD (D_EXTRAROW, 0, 0); ADD (D_EMPTYROW, 0, 0);
	for (int v = 0; v < 3; v++) ADD (D_WIDE, 0, v);
	for (int v = 0; v < 3; v++) ADD (D_TARGET, 0, v);
	/* appended later (keeps the item numbers of the older deviations' singletons stable): a wide objective that wraps,
	 * and the two other construction routes (rows before columns gives a non-identity structural map) */
	ADD (D_WIDE, 0, 3);
	for (int v = 0; v < 2; v++) ADD (D_ROUTE, 0, v);
	/* bounds that end exactly at zero (the writers treat a zero bound as the default in several places) */
	for (int c = 0; c < 2; c++) for (int v = 8; v < 13; v++) ADD (D_BOUND, c, v);
	/* a right-hand side of 5001 digits: the written line is longer than any fixed I/O buffer */
	ADD (D_RHS, 0, 4);
#undef ADD
}
static long choose (int n, int k) { if (k < 0 || k > n) return 0; long r = 1; for (int i = 1; i <= k; i++) r = r * (n - k + i) / i; return r; }
/* unrank the idx-th subset (sizes 0..K in order); returns size */
static int unrank_subset (long idx, int n, int K, int *out)
{
	for (int k = 0; k <= K; k++) {
		long c = choose (n, k);
		if (idx < c) {
			/* idx-th k-subset in lexicographic order */
			int x = 0;
			for (int i = 0; i < k; i++) {
				for (;; x++) { long cc = choose (n - x - 1, k - i - 1); if (idx < cc) break; idx -= cc; }
				out[i] = x++;
			}
			return k;
		}
		idx -= c;
	}
	return -1;
}
static long subsets_count (int n, int K) { long t = 0; for (int k = 0; k <= K; k++) t += choose (n, k); return t; }

static char longname[300];
static const char *devname (int v) { if (!strcmp (NAMES[v], "@LONG")) { if (!longname[0]) { memset (longname, 'n', 255); longname[0] = 'L'; longname[255] = 0; } return longname; } return NAMES[v]; }
static RefLP *base_problem (void)
{
	RefLP *M = ref_new (REF_MIN);
	mpq_t o, z; mpq_init (o); mpq_init (z);
	Qs (o, "2"); ref_add_col (M, o, z, 0, z, 1, "x"); Qs (o, "3"); ref_add_col (M, o, z, 0, z, 1, "y");
	Qs (o, "4"); int r = ref_add_row (M, 'L', o, NULL, "c1"); Qs (REF_A (M, r, 0), "1"); Qs (REF_A (M, r, 1), "1");
	Qs (o, "2"); r = ref_add_row (M, 'L', o, NULL, "c2"); Qs (REF_A (M, r, 0), "1"); Qs (REF_A (M, r, 1), "-1");
	mpq_clear (o); mpq_clear (z);
	return M;
}
static void set_bounds (RefLP * M, int c, const char *lo, const char *up)
{
	M->loinf[c] = lo == NULL; M->upinf[c] = up == NULL;
	if (lo) Qs (M->lo[c], lo); if (up) Qs (M->up[c], up);
}
/* returns 1 when the deviation list is contradictory */
static int g_route = ROUTE_ROWS;
static int apply_devs (RefLP * M, const int *set, int k, int *target, SBuf * desc)
{
	static const char *kinds[5] = { "G", "E", "R0", "R1", "R5/2" };
	static const char *coefv[6] = { "-1", "1/3", BIGS, "1/" BIGS, "-7/2", "0" };
	static const char *rhsv[4] = { "-1", "1/3", "0", BIGS };
	static const char *objv[4] = { "0", "-1", "1/3", BIGS };
	*target = -1; g_route = ROUTE_ROWS;
	for (int i = 0; i < k; i++) for (int j = i + 1; j < k; j++) if (devs[set[i]].axis == devs[set[j]].axis && devs[set[i]].target == devs[set[j]].target) return 1;
	mpq_t a, z; mpq_init (a); mpq_init (z);
	for (int i = 0; i < k; i++) {
		Dev d = devs[set[i]];
		switch (d.axis) {
		case D_ROWKIND: { const char *kk = kinds[d.val]; M->sense[d.target] = kk[0]; if (kk[0] == 'R') Qs (M->range[d.target], kk + 1); sb_printf (desc, "row%d:%s ", d.target, kk); break; }
		case D_BOUND:
			switch (d.val) {
			case 0: set_bounds (M, d.target, NULL, NULL); break;
			case 1: set_bounds (M, d.target, "1", "1"); break;
			case 2: set_bounds (M, d.target, "2", NULL); break;
			case 3: set_bounds (M, d.target, "0", "3"); break;
			case 4: set_bounds (M, d.target, NULL, "-1"); break;
			case 5: set_bounds (M, d.target, "-5", "-1"); break;
			case 6: set_bounds (M, d.target, "0", "0"); break;
			case 8: set_bounds (M, d.target, NULL, "0"); break;
			case 9: set_bounds (M, d.target, "-2", "0"); break;
			case 10: set_bounds (M, d.target, "-2", NULL); break;
			case 11: set_bounds (M, d.target, "-3", "1"); break;       /* upper bound exactly 1 (the binary default) with a negative / no lower bound */
			case 12: set_bounds (M, d.target, NULL, "1"); break;
			default: set_bounds (M, d.target, NULL, "3"); break;
			}
			sb_printf (desc, "bound%d:shape%d ", d.target, d.val); break;
		case D_COEF: Qs (REF_A (M, d.target, d.target), coefv[d.val]); sb_printf (desc, "A[%d][%d]=%s ", d.target, d.target, coefv[d.val]); break;
		case D_RHS:
			if (d.val == 4) { mpz_ui_pow_ui (mpq_numref (M->rhs[d.target]), 10, 5000); mpz_add_ui (mpq_numref (M->rhs[d.target]), mpq_numref (M->rhs[d.target]), 1); mpz_set_ui (mpq_denref (M->rhs[d.target]), 1); sb_printf (desc, "rhs%d=10^5000+1 ", d.target); }
			else { Qs (M->rhs[d.target], rhsv[d.val]); sb_printf (desc, "rhs%d=%s ", d.target, rhsv[d.val]); }
			break;
		case D_OBJ: Qs (M->obj[d.target], objv[d.val]); sb_printf (desc, "obj%d=%s ", d.target, objv[d.val]); break;
		case D_MAX: M->objsense = REF_MAX; sb_printf (desc, "max "); break;
		case D_INT: M->isint[d.target] = 1; sb_printf (desc, "int%d ", d.target); break;
		case D_CNAME: ref_set_cname (M, d.target, devname (d.val)); sb_printf (desc, "colname%d='%.20s' ", d.target, devname (d.val)); break;
		case D_RNAME: ref_set_rname (M, d.target, devname (d.val)); sb_printf (desc, "rowname%d='%.20s' ", d.target, devname (d.val)); break;
		case D_EXTRACOL: { Qs (a, "1"); int c = ref_add_col (M, a, z, 0, z, 1, "z"); Qs (REF_A (M, 0, c), "1"); sb_printf (desc, "extracol "); break; }
		case D_EXTRAROW: { Qs (a, "1"); int r = ref_add_row (M, 'G', a, NULL, "c3"); Qs (REF_A (M, r, 0), "1"); Qs (REF_A (M, r, 1), "2"); sb_printf (desc, "extrarow "); break; }
		case D_EMPTYROW: { Qs (a, "5"); ref_add_row (M, 'L', a, NULL, "cempty"); sb_printf (desc, "emptyrow "); break; }
		case D_WIDE: if (d.val == 3) {
			/* 12 long-named columns with mixed-sign rational costs: the objective needs several lines */
			for (int j = 0; j < 12; j++) {
				char nm[80]; memset (nm, 'a' + j, 60); nm[60] = 0; nm[0] = 'W';
				mpq_set_si (a, (j % 3 == 1) ? -(7 + j) : (5 + j), 3 + (j % 4)); mpq_canonicalize (a);
				int c = ref_add_col (M, a, z, 0, z, 1, nm); mpq_set_si (REF_A (M, j % 2, c), (j % 4 == 2) ? -1 : 2, 1);
			}
			sb_printf (desc, "wideobj+12 "); break;
		} else {
			int kx = d.val == 0 ? 3 : d.val == 1 ? 38 : 298; char nm[24];
			for (int j = 0; j < kx; j++) { snprintf (nm, sizeof nm, "w%d", j + 1); Qs (a, "0"); int c = ref_add_col (M, a, z, 0, z, 1, nm); mpq_set_si (REF_A (M, 0, c), (j % 5 == 3) ? -(j % 3 + 1) : (j % 3 + 1), 1); }
			sb_printf (desc, "wide+%d ", kx); break;
		}
		case D_TARGET: *target = d.val; sb_printf (desc, "target%d ", d.val); break;
		case D_ROUTE: g_route = d.val == 0 ? ROUTE_COLS : ROUTE_ROWS1; sb_printf (desc, "route=%s ", d.val == 0 ? "rows-first" : "row-by-row"); break;
		}
	}
	/* two columns / rows must not end up with the same name */
	for (int c = 0; c < M->n; c++) for (int e = c + 1; e < M->n; e++) if (!strcmp (M->cname[c], M->cname[e])) { mpq_clear (a); mpq_clear (z); return 1; }
	for (int r = 0; r < M->m; r++) for (int e = r + 1; e < M->m; e++) if (!strcmp (M->rname[r], M->rname[e])) { mpq_clear (a); mpq_clear (z); return 1; }
	mpq_clear (a); mpq_clear (z);
	return 0;
}
static int precondition (const RefLP * M)
{
	int anyrow = 0;
	for (int r = 0; r < M->m; r++) if (!row_empty (M, r)) anyrow = 1;
	if (!anyrow) return 0;
	for (int c = 0; c < M->n; c++) {
		int used = mpq_sgn (M->obj[c]) != 0;
		for (int r = 0; r < M->m && !used; r++) if (mpq_sgn (REF_A (M, r, c))) used = 1;
		if (!used) return 0;
	}
	return 1;
}
static mpq_QSprob build_with_int (const RefLP * M)
{
	mpq_QSprob p = qsx_build (M, g_route, 0);
	if (!p) return NULL;
	int any = 0; for (int c = 0; c < M->n; c++) if (M->isint[c]) any = 1;
	if (any) {
		/* there is no API call that marks a column integer: set the marker array the readers fill in */
		char *im = calloc ((size_t) p->qslp->structsize + 1, 1);
		for (int c = 0; c < M->n; c++) im[c] = M->isint[c] ? 1 : 0;
		p->qslp->intmarker = im;
	}
	return p;
}
static int name_ok (const char *s)
{
	if (!s || !isalpha ((unsigned char) s[0])) return 0;
	for (const char *q = s; *q; q++) if (!isalnum ((unsigned char) *q) && *q != '_') return 0;
	if (!strcasecmp (s, "inf") || !strcasecmp (s, "infinity") || !strcasecmp (s, "free")) return 0;   /* the LP writer renames these */
	return 1;
}
static int names_plain (const RefLP * M, int mps)
{
	for (int c = 0; c < M->n; c++) if (!name_ok (M->cname[c])) return 0;
	for (int r = 0; r < M->m; r++) if (!name_ok (M->rname[r])) return 0;
	return 1;
}
/* used by family hist: the file an edited problem was just written to must read back as the model (C08 for LP, C09 for MPS).
 * returns 0 equal / not applicable, 1 differs or rejected (why filled) */
int io_roundtrip_check (mpq_QSprob p, const RefLP * M, const char *fname, const char *fmt, char *why, size_t wl)
{
	(void) p;
	why[0] = 0;
	if (!precondition (M)) { STAT ("roundtrip_precondition_fails"); return 0; }
	if (!strcmp (fmt, "MPS")) {
		/* known finding KF-C09-mps-name-with-blank: the MPS writer prints names verbatim */
		for (int c = 0; c < M->n; c++) if (M->cname[c] && strchr (M->cname[c], ' ')) return 0;
		for (int r = 0; r < M->m; r++) if (M->rname[r] && strchr (M->rname[r], ' ')) return 0;
	}
	mpq_QSprob q = mpq_QSread_prob (fname, fmt);
	STAT ("roundtrips_in_histories");
	if (!q) { snprintf (why, wl, "the reader rejects the %s text the writer produced for the edited problem", fmt); return 1; }
	char w2[400];
	RefLP *R = qsx_readback (q, w2, sizeof w2);
	int rv = 0;
	if (!R) { snprintf (why, wl, "cannot read the re-read problem back: %s", w2); rv = 1; }
	else {
		CmpOpt o = { !strcmp (fmt, "LP"), 1, 0 };
		o.names_exact = names_plain (M, 0);
		int c = cmp_problem (R, M, &o, w2, sizeof w2);
		if (c == 1) { snprintf (why, wl, "%s text of the edited problem reads back differently: %s", fmt, w2); rv = 1; }
		ref_free (R);
	}
	mpq_QSfree_prob (q);
	return rv;
}
static int names_plain_old (const RefLP * M, int mps)
{
	for (int c = 0; c < M->n; c++) { const char *s = M->cname[c]; if (!s) return 0; if (!isalpha ((unsigned char) s[0])) return 0; for (const char *q = s; *q; q++) if (!isalnum ((unsigned char) *q) && *q != '_') return 0; }
	for (int r = 0; r < M->m; r++) { const char *s = M->rname[r]; if (!s) return 0; if (!isalpha ((unsigned char) s[0])) return 0; for (const char *q = s; *q; q++) if (!isalnum ((unsigned char) *q) && *q != '_') return 0; }
	(void) mps;
	return 1;
}
static int o_K;
static const char *o_fmt;
static int o_chain;
static void wr_init (void) { build_devs (); o_K = (int) opt_int ("k", 2); o_fmt = opt_str ("fmt", "LP"); o_chain = (int) opt_int ("chain", 0); qsx_start (); }
static long wr_count (void) { return subsets_count (ndev, o_K); }

/* write p in format fmt to a fresh file (target: -1/none plain, 0 gz, 1 bz2, 2 FILE*), read it back */
static mpq_QSprob write_read (mpq_QSprob p, const char *fmt, int target, int step, int *wrv, char *fname, size_t fl)
{
	const char *ext = !strcmp (fmt, "LP") ? "lp" : "mps";
	snprintf (fname, fl, "w%d.%s%s", step, ext, target == 0 ? ".gz" : target == 1 ? ".bz2" : "");
	unlink (fname);
	if (target == 2) { FILE *f = fopen (fname, "w"); *wrv = mpq_QSwrite_prob_file (p, f, fmt); fclose (f); }
	else *wrv = mpq_QSwrite_prob (p, fname, fmt);
	if (*wrv) return NULL;
	return mpq_QSread_prob (fname, fmt);
}
static void solve_sv (mpq_QSprob p, int *st, mpq_t v)
{
	*st = -1;
	if (QSexact_solver (p, NULL, NULL, NULL, DUAL_SIMPLEX, st)) *st = -2;
	if (*st == QS_LP_OPTIMAL && mpq_QSget_objval (p, (mpq_t *) v)) *st = -3;
}
static void wr_run (long item)
{
	int set[8], target = -1;
	int k = unrank_subset (item, ndev, o_K, set);
	if (k < 0) return;
	RefLP *M = base_problem ();
	SBuf desc; sb_init (&desc);
	sb_printf (&desc, "base2x2 + { ");
	if (apply_devs (M, set, k, &target, &desc)) { STAT ("skipped_conflicting_deviations"); goto OUT; }
	sb_printf (&desc, "}");
	if (!precondition (M)) { STAT ("skipped_precondition"); goto OUT; }
	STAT ("instances");
	if (k) STAT ("instances_nontrivial");
	{
		mpq_QSprob p = build_with_int (M);
		if (!p) { viol ("C06", "build-failed", "cannot build %s", desc.s); goto OUT; }
		char why[500], fname[64];
		/* chain of conversions: o_chain = 0: single step in o_fmt; 1: all sequences of length <= 3 over {LP,MPS} that start with o_fmt */
		int nseq = o_chain ? 7 : 1;
		static const char *seqs[7][3] = { { "A", 0, 0 }, { "A", "A", 0 }, { "A", "B", 0 }, { "A", "A", "A" }, { "A", "A", "B" }, { "A", "B", "A" }, { "A", "B", "B" } };
		const char *A = o_fmt, *B = !strcmp (o_fmt, "LP") ? "MPS" : "LP";
		int st0; mpq_t v0, v1; mpq_init (v0); mpq_init (v1);
		solve_sv (p, &st0, v0);
		for (int s = 0; s < nseq; s++) {
			mpq_QSprob cur = p; int owned = 0, lp_seen = 0, bad = 0;
			char path[64] = "";
			for (int step = 0; step < 3 && seqs[s][step] && !bad; step++) {
				const char *fmt = seqs[s][step][0] == 'A' ? A : B;
				const char *prop = !strcmp (fmt, "LP") ? "C08" : "C09";
				if (nseq > 1 && step > 0) prop = "C09";
				int wrv = 0;
				strcat (path, step ? "->" : ""); strcat (path, fmt);
				cap_begin ();
				mpq_QSprob q = write_read (cur, fmt, step == 0 ? target : -1, step, &wrv, fname, sizeof fname);
				char capb[200]; long capn = cap_end (capb, sizeof capb);
				STAT ("executions");
				if (capn) viol ("C20", "io-writes-stdio", "%ld bytes on stdout/stderr while writing/reading %s (\"%.100s\"): %s", capn, fmt, capb, desc.s);
				if (!strcmp (fmt, "LP")) lp_seen = 1;
				if (wrv) { char sig[64]; snprintf (sig, sizeof sig, "write-%s-failed", fmt); viol (prop, sig, "writer returned %d [%s] for %s", wrv, path, desc.s); bad = 1; }
				else if (!q) { char sig[64]; snprintf (sig, sizeof sig, "read-%s-rejects-own-output", fmt); viol (prop, sig, "the reader rejects the text the writer produced [%s] (file kept as %s in the replay scratch) for %s", path, fname, desc.s); bad = 1; }
				else {
					RefLP *R = qsx_readback (q, why, sizeof why);
					if (!R) { viol (prop, "readback-failed", "%s [%s] %s", why, path, desc.s); bad = 1; }
					else {
						CmpOpt o = { lp_seen, 1, 0 };   /* both writers drop empty rows (the MPS writer says so in a warning) */
						o.names_exact = names_plain (M, 0);
						int c = cmp_problem (R, M, &o, why, sizeof why);
						if (c && g_verbose) { SBuf b1, b2; sb_init (&b1); sb_init (&b2); ref_dump (&b1, R, 1); ref_dump (&b2, M, 1); vlog ("read : %s\nmodel: %s\n", b1.s, b2.s); sb_free (&b1); sb_free (&b2); }
						if (c == 1) { char sig[64]; snprintf (sig, sizeof sig, "roundtrip-%s-differs", nseq > 1 && step > 0 ? "chain" : fmt); viol (prop, sig, "problem read back differs: %s [%s] for %s", why, path, desc.s); bad = 1; }
						else if (c == 2) STAT ("compare_gave_up");
						else {
							int st1; solve_sv (q, &st1, v1);
							if (st1 != st0 || (st0 == QS_LP_OPTIMAL && !mpq_equal (v0, v1))) { viol (prop, "roundtrip-solve-differs", "status/value after the round trip %s vs before %s [%s] for %s", status_name (st1), status_name (st0), path, desc.s); bad = 1; }
						}
						tr_int (c);
						ref_free (R);
					}
				}
				if (g_verbose && !bad) vlog ("step %s ok (%s)\n", path, fname);
				if (!g_verbose || !bad) unlink (fname);
				if (owned) mpq_QSfree_prob (cur);
				cur = q; owned = 1;
				if (!q) break;
			}
			if (owned && cur) mpq_QSfree_prob (cur);
		}
		mpq_clear (v0); mpq_clear (v1);
		if (sample_wanted ()) sample ("%s fmt=%s chain=%d", desc.s, o_fmt, o_chain);
		mpq_QSfree_prob (p);
	}
OUT:
	sb_free (&desc);
	ref_free (M);
}
static void wr_finish (void) { qsx_stop (); }
Family fam_wr = { "wr", "writer->reader round trips of base+feature deviations (C08 fmt=LP, C09 fmt=MPS, chain=1 conversions); --opt k=K", wr_init, wr_count, wr_run, wr_finish, 120 };

/* ====================================================================== number scanner (family num) */
/* reference of the documented literal grammar:  [sign] digits [. digits] [e [sign] digits] [/ same without sign?]
 * The library documents "p/q" fractions of two such literals.  Returns consumed length (0 = no number). */
static int ref_simple (const char *s, mpq_t out, int allow_sign)
{
	int i = 0, neg = 0, nd = 0;
	if (allow_sign && (s[i] == '+' || s[i] == '-')) { neg = s[i] == '-'; i++; }
	mpz_t num, den; mpz_init (num); mpz_init_set_ui (den, 1);
	while (isdigit ((unsigned char) s[i])) { mpz_mul_ui (num, num, 10); mpz_add_ui (num, num, (unsigned) (s[i] - '0')); i++; nd++; }
	if (s[i] == '.') {
		int j = i + 1, fd = 0;
		while (isdigit ((unsigned char) s[j])) { mpz_mul_ui (num, num, 10); mpz_add_ui (num, num, (unsigned) (s[j] - '0')); mpz_mul_ui (den, den, 10); j++; fd++; }
		if (nd + fd > 0) { i = j; nd += fd; }
	}
	if (nd == 0) { mpz_clear (num); mpz_clear (den); return 0; }
	if (s[i] == 'e' || s[i] == 'E') {
		int j = i + 1, eneg = 0, ed = 0; long e = 0;
		if (s[j] == '+' || s[j] == '-') { eneg = s[j] == '-'; j++; }
		while (isdigit ((unsigned char) s[j]) && ed < 6) { e = e * 10 + (s[j] - '0'); j++; ed++; }
		if (ed > 0 && !isdigit ((unsigned char) s[j])) {
			i = j;
			mpz_t p; mpz_init (p); mpz_ui_pow_ui (p, 10, (unsigned long) e);
			if (eneg) mpz_mul (den, den, p); else mpz_mul (num, num, p);
			mpz_clear (p);
		}
	}
	mpz_set (mpq_numref (out), num); mpz_set (mpq_denref (out), den);
	mpq_canonicalize (out);
	if (neg) mpq_neg (out, out);
	mpz_clear (num); mpz_clear (den);
	return i;
}
static int ref_number (const char *s, mpq_t out)
{
	int i = ref_simple (s, out, 1);
	if (!i) return 0;
	if (s[i] == '/') {
		mpq_t d; mpq_init (d);
		int j = ref_simple (s + i + 1, d, 1);
		if (j && mpq_sgn (d)) { mpq_div (out, out, d); i += 1 + j; }
		else if (j) { mpq_clear (d); return -1; }    /* division by zero: must be rejected, not crash */
		mpq_clear (d);
	}
	return i;
}
static const char NUMTOK[] = "017.eE+-/";
static int num_len;
static void num_init (void) { num_len = (int) opt_int ("len", 5); qsx_start (); }
static long num_count (void) { long c = 0, p = 1; for (int l = 1; l <= num_len; l++) { p *= 9; c += p; } return c * 3; }
static void num_run (long item)
{
	static const char term[3] = { 0, ' ', 'x' };
	int t = (int) (item % 3); long r = item / 3;
	int l = 1; long p = 9;
	while (r >= p) { r -= p; p *= 9; l++; }
	char s[24];
	for (int i = 0; i < l; i++) { s[i] = NUMTOK[r % 9]; r /= 9; }
	s[l] = term[t]; s[l + 1] = 0;
	STAT ("instances"); STAT ("executions");
	mpq_t want, got; mpq_init (want); mpq_init (got);
	int wl = ref_number (s, want);
	int gl = mpq_ILLget_value (s, &got);
	tr_int (gl);
	if (wl > 0) {
		STAT ("instances_nontrivial");
		if (wl == l) STAT ("whole_string_is_a_number");
		if (gl == wl) { tr_mpq (got); if (!mpq_equal (got, want)) { char *a = q_str (got), *b = q_str (want); viol ("C10", "number-value", "literal \"%s\": scanner gives %s, the text denotes %s", s, a, b); free (a); free (b); } }
		else if (gl > wl) {
			/* the scanner swallowed characters after the longest well-formed literal ("0E." ...): such a string is not a
			 * literal of a valid file, which is all the property speaks about - counted, not flagged */
			STAT ("scanner_overruns_on_nongrammatical_suffix");
		} else STAT ("scanner_consumes_less_than_reference");
	} else if (wl == 0) {
		if (gl > 0) STAT ("scanner_accepts_nongrammatical_prefix");
	} else if (wl < 0) {
		/* zero denominator: must be rejected (and must not crash, which the engine records) */
		STAT ("zero_denominator_literals");
		if (gl > 0) viol ("C11", "zero-denominator-accepted", "literal \"%s\" has a zero denominator but the scanner returns a value", s);
	}
	if (sample_wanted ()) sample ("\"%s\" -> consumed %d (reference %d)", s, gl, wl);
	mpq_clear (want); mpq_clear (got);
}
static void num_finish (void) { qsx_stop (); }
Family fam_num = { "num", "number scanner vs reference literal grammar, all strings of length <= len over \"017.eE+-/\" (C10); --opt len=L", num_init, num_count, num_run, num_finish, 20 };

/* ====================================================================== independent renderers (family rd) */
/* number spelling: 0 p or p/q ; 1 decimal when it terminates ; 2 exponent form ; 3 unreduced fraction 2p/2q ; 4 padded with zeros */
static void render_abs (SBuf * b, const mpq_t q, int spell)
{
	mpq_t a; mpq_init (a); mpq_abs (a, q);
	char *ns = z_str (mpq_numref (a)), *ds = z_str (mpq_denref (a));
	int isint = !strcmp (ds, "1");
	if (spell == 1) {
		/* terminating decimal? denominator = 2^i 5^j */
		mpz_t d, t; mpz_init_set (d, mpq_denref (a)); mpz_init (t);
		int k = 0;
		while (mpz_divisible_ui_p (d, 2)) { mpz_divexact_ui (d, d, 2); k++; }
		int k5 = 0; while (mpz_divisible_ui_p (d, 5)) { mpz_divexact_ui (d, d, 5); k5++; }
		if (mpz_cmp_ui (d, 1) == 0 && (k || k5)) {
			int e = k > k5 ? k : k5;
			mpz_ui_pow_ui (t, 10, (unsigned) e); mpz_mul (t, t, mpq_numref (a)); mpz_divexact (t, t, mpq_denref (a));
			char *ts = z_str (t); int L = (int) strlen (ts);
			if (L <= e) { sb_printf (b, "0."); for (int i = 0; i < e - L; i++) sb_printf (b, "0"); sb_printf (b, "%s", ts); }
			else sb_printf (b, "%.*s.%s", L - e, ts, ts + L - e);
			free (ts);
		} else if (isint) sb_printf (b, "%s.0", ns);
		else sb_printf (b, "%s/%s", ns, ds);
		mpz_clear (d); mpz_clear (t);
	} else if (spell == 2) {
		if (isint) sb_printf (b, "%s0e-1", ns); else sb_printf (b, "%se0/%s.0E+0", ns, ds);
	} else if (spell == 3) {
		mpz_t n2, d2; mpz_init (n2); mpz_init (d2); mpz_mul_ui (n2, mpq_numref (a), 6); mpz_mul_ui (d2, mpq_denref (a), 6);
		char *n2s = z_str (n2), *d2s = z_str (d2);
		sb_printf (b, "%s/%s", n2s, d2s); free (n2s); free (d2s); mpz_clear (n2); mpz_clear (d2);
	} else if (spell == 4) {
		if (isint) sb_printf (b, "000%s.000", ns); else sb_printf (b, "00%s/0%s", ns, ds);
	} else {
		if (isint) sb_printf (b, "%s", ns); else sb_printf (b, "%s/%s", ns, ds);
	}
	free (ns); free (ds); mpq_clear (a);
}
static void render_signed (SBuf * b, const mpq_t q, int spell) { if (mpq_sgn (q) < 0) sb_printf (b, "-"); render_abs (b, q, spell); }

#define NLPOPT 21
static const int lpopt_dom[NLPOPT] = { 4, 5, 3, 3, 2, 3, 4, 3, 2, 3, 5, 2, 3, 3, 3, 3, 3, 3, 3, 2, 2 };
static const char *lpopt_name[NLPOPT] = { "minmax-keyword", "subject-to-keyword", "coefficient-1", "repeated-terms", "term-order", "spacing", "line-breaks", "comments", "blank-lines", "bound-form", "number-spelling", "row-names", "objective-name", "problem-line", "end-keyword", "bounds-keyword", "sense-spelling", "free-spelling", "integer-keyword", "trailing-blanks", "fixed-form" };
typedef struct { int v[NLPOPT]; } LpOpt;

/* one expression: terms of row r (or objective when r < 0) */
static void render_expr (SBuf * b, const RefLP * M, int r, const LpOpt * o, int *line_terms)
{
	int n = M->n, first = 1, k = 0;
	mpq_t c, one, t; mpq_init (c); mpq_init (one); mpq_init (t); mpq_set_ui (one, 1, 1);
	const char *sp = o->v[5] == 1 ? "" : o->v[5] == 2 ? "  \t " : " ";
	const char *brk = o->v[6] == 1 ? "\n   " : "";
	for (int i = 0; i < n; i++) {
		int j = o->v[4] ? n - 1 - i : i;
		mpq_set (c, r < 0 ? M->obj[j] : REF_A (M, r, j));
		if (!mpq_sgn (c)) continue;
		int parts = 1;
		mpq_t pc[2]; mpq_init (pc[0]); mpq_init (pc[1]); mpq_set (pc[0], c);
		if (o->v[3] == 1 && first) { /* split the first term: c = (c - 1) + 1 */ mpq_sub (pc[0], c, one); mpq_set (pc[1], one); parts = 2; if (!mpq_sgn (pc[0])) { mpq_set (pc[0], one); parts = 1; } }
		for (int pi = 0; pi < parts; pi++) {
			int neg = mpq_sgn (pc[pi]) < 0;
			if (!first || neg) sb_printf (b, "%s%s%s", first ? "" : sp, neg ? "-" : "+", sp);
			mpq_abs (t, pc[pi]);
			if (mpq_cmp_ui (t, 1, 1) != 0 || o->v[2]) { if (mpq_cmp_ui (t, 1, 1) == 0 && o->v[2] == 2) sb_printf (b, "1.0"); else render_abs (b, t, o->v[10]); sb_printf (b, "%s", o->v[6] == 3 ? "\n  " : (o->v[5] == 1 ? " " : sp)); }
			sb_printf (b, "%s", M->cname[j]);
			first = 0; k++;
			sb_printf (b, "%s", brk);
		}
		mpq_clear (pc[0]); mpq_clear (pc[1]);
	}
	if (o->v[3] == 2 && !first && n) {
		/* a pair of terms that cancels: + 2 v - 2 v for the last column */
		int j = n - 1;
		sb_printf (b, "%s+%s2 %s%s-%s2 %s", sp, sp, M->cname[j], sp, sp, M->cname[j]);
	}
	if (line_terms) *line_terms = k;
	mpq_clear (c); mpq_clear (one); mpq_clear (t);
}
static void eol (SBuf * b, const LpOpt * o) { sb_printf (b, "%s%s\n%s", o->v[19] ? "  \t" : "", o->v[7] == 1 ? " \\ a comment" : "", o->v[8] ? "\n" : ""); if (o->v[7] == 2) sb_printf (b, "\\ full line comment: st end bounds 1/0\n"); }
static void render_lp (SBuf * b, const RefLP * M, const LpOpt * o)
{
	static const char *kmin[4] = { "Minimize", "MIN", "minimum", "mInImIzE" }, *kmax[4] = { "Maximize", "MAX", "maximum", "MaXiMuM" };
	static const char *kst[5] = { "Subject To", "st", "ST", "SUBJECT   TO", "subject to" };
	static const char *kend[3] = { "End", "END", "end" }, *kbnd[3] = { "Bounds", "BOUND", "bounds" }, *kint[3] = { "Integer", "INT", "integer" };
	static const char *sl[3] = { "<=", "=<", "<" }, *sg[3] = { ">=", "=>", ">" };
	mpq_t t; mpq_init (t);
	if (o->v[13] == 1) { sb_printf (b, "Problem\n verifprob"); eol (b, o); } else if (o->v[13] == 2) { sb_printf (b, "PROB verifprob"); eol (b, o); }
	sb_printf (b, "%s", M->objsense == REF_MIN ? kmin[o->v[0]] : kmax[o->v[0]]); eol (b, o);
	sb_printf (b, " "); if (o->v[12] == 0) sb_printf (b, "obj: "); else if (o->v[12] == 2) sb_printf (b, "cost: ");
	render_expr (b, M, -1, o, NULL); eol (b, o);
	sb_printf (b, "%s", kst[o->v[1]]); eol (b, o);
	for (int r = 0; r < M->m; r++) {
		sb_printf (b, " "); if (o->v[11] == 0) sb_printf (b, "%s: ", M->rname[r]);
		render_expr (b, M, r, o, NULL);
		if (o->v[6] == 2) sb_printf (b, "\n    ");
		sb_printf (b, " %s ", M->sense[r] == 'L' ? sl[o->v[16]] : M->sense[r] == 'G' ? sg[o->v[16]] : "=");
		render_signed (b, M->rhs[r], o->v[10]); eol (b, o);
	}
	int anyb = 0;
	for (int c = 0; c < M->n; c++) {
		int deflo = !M->loinf[c] && !mpq_sgn (M->lo[c]), defup = M->upinf[c];
		if (M->isint[c] && deflo && defup) defup = 0;      /* an integer column without bounds would be binary: state the lower bound */
		if (deflo && defup && !M->isint[c]) continue;
		if (M->isint[c] && deflo && !M->upinf[c] && !mpq_cmp_ui (M->up[c], 1, 1)) continue;   /* binary default */
		if (!anyb) { sb_printf (b, "%s", kbnd[o->v[15]]); eol (b, o); anyb = 1; }
		const char *nm = M->cname[c];
		if (M->loinf[c] && M->upinf[c]) { if (o->v[17] == 2) sb_printf (b, " -inf <= %s <= inf", nm); else sb_printf (b, " %s %s", nm, o->v[17] ? "FREE" : "free"); eol (b, o); continue; }
		if (!M->loinf[c] && !M->upinf[c] && mpq_equal (M->lo[c], M->up[c])) {
			if (o->v[20]) { sb_printf (b, " "); render_signed (b, M->lo[c], o->v[10]); sb_printf (b, " <= %s <= ", nm); render_signed (b, M->up[c], o->v[10]); }
			else { sb_printf (b, " %s = ", nm); render_signed (b, M->lo[c], o->v[10]); }
			eol (b, o); continue;
		}
		/* general: lower part needed unless default 0 (or -inf with a negative upper bound, which the rules imply) */
		int needlo = !deflo, needup = !M->upinf[c];
		if (M->isint[c] && deflo && M->upinf[c]) needlo = 1;
		if (M->loinf[c] && !M->upinf[c] && mpq_sgn (M->up[c]) < 0 && o->v[9] != 2) needlo = 0;    /* implied by the documented rule */
		if (o->v[9] == 2 && M->upinf[c]) needup = 1;
		if (o->v[9] == 1 && needlo && needup) {
			sb_printf (b, " "); if (M->loinf[c]) sb_printf (b, "-inf"); else render_signed (b, M->lo[c], o->v[10]); sb_printf (b, " <= %s", nm); eol (b, o);
			sb_printf (b, " %s <= ", nm); if (M->upinf[c]) sb_printf (b, "+infinity"); else render_signed (b, M->up[c], o->v[10]); eol (b, o);
		} else {
			sb_printf (b, " ");
			if (needlo) { if (M->loinf[c]) sb_printf (b, "-inf"); else render_signed (b, M->lo[c], o->v[10]); sb_printf (b, " <= "); }
			sb_printf (b, "%s", nm);
			if (needup) { sb_printf (b, " <= "); if (M->upinf[c]) sb_printf (b, "+infinity"); else render_signed (b, M->up[c], o->v[10]); }
			eol (b, o);
		}
	}
	int anyi = 0; for (int c = 0; c < M->n; c++) if (M->isint[c]) anyi = 1;
	if (anyi) { sb_printf (b, "%s", kint[o->v[18]]); eol (b, o); sb_printf (b, " "); for (int c = 0; c < M->n; c++) if (M->isint[c]) sb_printf (b, "%s ", M->cname[c]); eol (b, o); }
	sb_printf (b, "%s\n", kend[o->v[14]]);
	mpq_clear (t);
}

#define NMPSOPT 13
static const int mpsopt_dom[NMPSOPT] = { 3, 6, 2, 3, 2, 2, 2, 2, 5, 2, 2, 2, 3 };
static const char *mpsopt_name[NMPSOPT] = { "field-spacing", "range-representation", "bound-representation", "objsense-section", "objname-section", "set-names", "entries-per-line", "comments", "number-spelling", "rhs-on-objective", "explicit-zero-rhs", "column-order", "extra-free-row" };
typedef struct { int v[NMPSOPT]; } MpsOpt;
static void render_mps (SBuf * b, const RefLP * M, const MpsOpt * o)
{
	const char *S = o->v[0] == 1 ? "\t" : o->v[0] == 2 ? " " : "    ";
	mpq_t t, u; mpq_init (t); mpq_init (u);
#define CMT() do { if (o->v[7]) sb_printf (b, "* a comment line: ROWS COLUMNS 1/0\n\n"); } while (0)
	sb_printf (b, "NAME%sverifprob\n", S); CMT ();
	if (M->objsense == REF_MAX) sb_printf (b, "OBJSENSE\n%s%s\n", S, o->v[3] == 1 ? "MAXIMIZE" : o->v[3] == 2 ? "max" : "MAX");
	else if (o->v[3]) sb_printf (b, "OBJSENSE\n%s%s\n", S, o->v[3] == 1 ? "MIN" : "minimize");
	if (o->v[4]) sb_printf (b, "OBJNAME\n%sobj\n", S);
	sb_printf (b, "ROWS\n N%sobj\n", S);
	/* a further free row (with entries in COLUMNS): the first N row is the objective, later ones denote nothing */
	if (o->v[12] == 1) sb_printf (b, " N%sauxfree\n", S);
	for (int r = 0; r < M->m; r++) {
		char s = M->sense[r];
		if (s == 'R') s = (o->v[1] == 0 || o->v[1] == 4) ? 'G' : (o->v[1] == 1 || o->v[1] == 5) ? 'L' : 'E';
		sb_printf (b, " %c%s%s\n", s, S, M->rname[r]);
	}
	if (o->v[12] == 2) sb_printf (b, " N%sauxfree\n", S);
	CMT ();
	sb_printf (b, "COLUMNS\n");
	int inint = 0;
	for (int i = 0; i < M->n; i++) {
		int c = o->v[11] ? M->n - 1 - i : i;
		if (M->isint[c] && !inint) { sb_printf (b, "%sMARKER%s'MARKER'%s'INTORG'\n", S, S, S); inint = 1; }
		if (!M->isint[c] && inint) { sb_printf (b, "%sMARKER%s'MARKER'%s'INTEND'\n", S, S, S); inint = 0; }
		int k = 0;
		if (o->v[12]) sb_printf (b, "%s%s%sauxfree%s%d\n", S, M->cname[c], S, S, c % 2 ? -3 : 7);
		if (mpq_sgn (M->obj[c])) { sb_printf (b, "%s%s%sobj%s", S, M->cname[c], S, S); render_signed (b, M->obj[c], o->v[8]); k++; if (!o->v[6]) { sb_printf (b, "\n"); k = 0; } }
		for (int r = 0; r < M->m; r++) {
			if (!mpq_sgn (REF_A (M, r, c))) continue;
			if (k == 0) sb_printf (b, "%s%s", S, M->cname[c]);
			sb_printf (b, "%s%s%s", S, M->rname[r], S); render_signed (b, REF_A (M, r, c), o->v[8]); k++;
			if (!o->v[6] || k == 2) { sb_printf (b, "\n"); k = 0; }
		}
		if (k) sb_printf (b, "\n");
	}
	if (inint) sb_printf (b, "%sMARKER%s'MARKER'%s'INTEND'\n", S, S, S);
	CMT ();
	sb_printf (b, "RHS\n");
	if (o->v[9]) sb_printf (b, "%s%sobj%s-7\n", S, o->v[5] ? "" : "RHS    ", S);
	for (int r = 0; r < M->m; r++) {
		mpq_set (t, M->rhs[r]);
		if (M->sense[r] == 'R' && (o->v[1] == 1 || o->v[1] == 3 || o->v[1] == 5)) mpq_add (t, t, M->range[r]);   /* L and E- forms state the upper end */
		if (!mpq_sgn (t) && !o->v[10]) continue;
		sb_printf (b, "%s%s%s%s", S, o->v[5] ? "" : "RHS    ", M->rname[r], S); render_signed (b, t, o->v[8]); sb_printf (b, "\n");
	}
	int anyr = 0; for (int r = 0; r < M->m; r++) if (M->sense[r] == 'R') anyr = 1;
	if (anyr) {
		sb_printf (b, "RANGES\n");
		for (int r = 0; r < M->m; r++) if (M->sense[r] == 'R') {
			mpq_set (t, M->range[r]);
			if (o->v[1] == 3 || o->v[1] == 4 || o->v[1] == 5) mpq_neg (t, t);
			sb_printf (b, "%s%s%s%s", S, o->v[5] ? "" : "RNG    ", M->rname[r], S); render_signed (b, t, o->v[8]); sb_printf (b, "\n");
		}
	}
	int anyb = 0;
	for (int c = 0; c < M->n; c++) {
		int deflo = !M->loinf[c] && !mpq_sgn (M->lo[c]), defup = M->upinf[c];
		if (deflo && defup && !M->isint[c]) continue;
		if (M->isint[c] && deflo && !M->upinf[c] && !mpq_cmp_ui (M->up[c], 1, 1)) continue;    /* integer without bounds is binary */
		if (!anyb) { sb_printf (b, "BOUNDS\n"); anyb = 1; }
		const char *bn = "BND    ", *nm = M->cname[c];   /* one bound set: its name cannot be blank on number-less records, so it never is */
/* a blank set name is only recognisable in free format when a number follows the column name */
#define BL(type) sb_printf (b, " %s%s%s%s", type, S, (!strcmp (type, "FR") || !strcmp (type, "MI") || !strcmp (type, "PL")) ? "BND    " : bn, nm)
		if (M->loinf[c] && M->upinf[c]) { if (o->v[2]) { BL ("MI"); sb_printf (b, "\n"); } else { BL ("FR"); sb_printf (b, "\n"); } continue; }
		if (!M->loinf[c] && !M->upinf[c] && mpq_equal (M->lo[c], M->up[c]) && !o->v[2]) { BL ("FX"); sb_printf (b, "%s", S); render_signed (b, M->lo[c], o->v[8]); sb_printf (b, "\n"); continue; }
		if (M->loinf[c]) { if (!(mpq_sgn (M->up[c]) < 0 && o->v[2])) { BL ("MI"); sb_printf (b, "\n"); } }
		else if (!deflo || (M->isint[c] && M->upinf[c])) { BL ("LO"); sb_printf (b, "%s", S); render_signed (b, M->lo[c], o->v[8]); sb_printf (b, "\n"); }
		if (!M->upinf[c]) { BL ("UP"); sb_printf (b, "%s", S); render_signed (b, M->up[c], o->v[8]); sb_printf (b, "\n"); }
		else if (o->v[2] && !deflo) { BL ("PL"); sb_printf (b, "\n"); }
	}
	sb_printf (b, "ENDATA\n");
	mpq_clear (t); mpq_clear (u);
}

/* base problems for rd: base2x2 and base2x2 + one format-relevant feature */
static int rd_bases[200], n_rdbase;
static int rd_K, rd_mps, rd_post;
static int rd_nopt; static const int *rd_dom;
static void rd_init (void)
{
	build_devs ();
	rd_K = (int) opt_int ("k", 1);
	rd_mps = !strcmp (opt_str ("fmt", "LP"), "MPS");
	rd_post = (int) opt_int ("post", 1);
	rd_nopt = rd_mps ? NMPSOPT : NLPOPT; rd_dom = rd_mps ? mpsopt_dom : lpopt_dom;
	n_rdbase = 0; rd_bases[n_rdbase++] = -1;
	for (int d = 0; d < ndev; d++) {
		int a = devs[d].axis;
		if (a == D_CNAME || a == D_RNAME || a == D_TARGET) continue;
		if (a == D_WIDE && devs[d].val == 2) continue;
		if (a == D_EMPTYROW && !rd_mps) continue;
		rd_bases[n_rdbase++] = d;
	}
	qsx_start ();
}
/* deviation vectors: list of (coordinate, value != 0) with <= K entries */
static long rd_nvec (int K)
{
	/* count vectors with exactly j non-default coordinates, j <= K */
	long total = 1;
	if (K >= 1) for (int i = 0; i < rd_nopt; i++) total += rd_dom[i] - 1;
	if (K >= 2) for (int i = 0; i < rd_nopt; i++) for (int j = i + 1; j < rd_nopt; j++) total += (long) (rd_dom[i] - 1) * (rd_dom[j] - 1);
	return total;
}
static void rd_vec (long k, int *v)
{
	memset (v, 0, sizeof (int) * 32);
	if (k == 0) return;
	k--;
	for (int i = 0; i < rd_nopt; i++) { if (k < rd_dom[i] - 1) { v[i] = (int) k + 1; return; } k -= rd_dom[i] - 1; }
	for (int i = 0; i < rd_nopt; i++) for (int j = i + 1; j < rd_nopt; j++) {
		long c = (long) (rd_dom[i] - 1) * (rd_dom[j] - 1);
		if (k < c) { v[i] = (int) (k / (rd_dom[j] - 1)) + 1; v[j] = (int) (k % (rd_dom[j] - 1)) + 1; return; }
		k -= c;
	}
}
static long rd_count (void) { return (long) n_rdbase * rd_nvec (rd_K); }
static void rd_run (long item)
{
	long nv = rd_nvec (rd_K);
	int bi = (int) (item / nv); long vi = item % nv;
	int v[32]; rd_vec (vi, v);
	RefLP *M = base_problem ();
	SBuf desc, text; sb_init (&desc); sb_init (&text);
	int tgt, set[1];
	sb_printf (&desc, "base2x2 + { ");
	if (rd_bases[bi] >= 0) { set[0] = rd_bases[bi]; apply_devs (M, set, 1, &tgt, &desc); }
	sb_printf (&desc, "} rendered as %s with { ", rd_mps ? "MPS" : "LP");
	for (int i = 0; i < rd_nopt; i++) if (v[i]) sb_printf (&desc, "%s=%d ", rd_mps ? mpsopt_name[i] : lpopt_name[i], v[i]);
	sb_printf (&desc, "}");
	if (!precondition (M)) { STAT ("skipped_precondition"); goto OUT; }
	/* what the text denotes */
	RefLP *E = ref_clone (M);
	if (!rd_mps) {
		/* LP text has no range syntax: a ranged row is rendered as two rows */
		int m0 = E->m;
		for (int r = 0; r < m0; r++) if (E->sense[r] == 'R') {
			char nm[300]; snprintf (nm, sizeof nm, "%su", E->rname[r]);
			mpq_t hi; mpq_init (hi); mpq_add (hi, E->rhs[r], E->range[r]);
			int r2 = ref_add_row (E, 'L', hi, NULL, nm);
			for (int c = 0; c < E->n; c++) mpq_set (REF_A (E, r2, c), REF_A (E, r, c));
			E->sense[r] = 'G'; mpq_set_ui (E->range[r], 0, 1);
			mpq_clear (hi);
		}
	}
	if (rd_mps) { MpsOpt o; memcpy (o.v, v, sizeof o.v); render_mps (&text, E, &o); }
	else { LpOpt o; memcpy (o.v, v, sizeof o.v); render_lp (&text, E, &o); }
	STAT ("instances");
	if (vi) STAT ("instances_nontrivial");
	{
		const char *fn = rd_mps ? "r.mps" : "r.lp", *fmt = rd_mps ? "MPS" : "LP";
		FILE *f = fopen (fn, "w"); fwrite (text.s, 1, text.len, f); fclose (f);
		char why[500];
		cap_begin ();
		mpq_QSprob q = mpq_QSread_prob (fn, fmt);
		char capb[200]; long capn = cap_end (capb, sizeof capb);
		STAT ("executions");
		if (capn) viol ("C20", "read-writes-stdio", "%ld bytes on stdout/stderr while reading (\"%.100s\"): %s", capn, capb, desc.s);
		if (!q) { viol ("C10", rd_mps ? "valid-mps-rejected" : "valid-lp-rejected", "the reader rejects a syntactically valid file: %s\n--- text ---\n%.1500s", desc.s, text.s); }
		else {
			RefLP *R = qsx_readback (q, why, sizeof why);
			if (!R) viol ("C10", "readback-failed", "%s: %s", why, desc.s);
			else {
				CmpOpt o = { 0, 0, 1 };
				if (!rd_mps && v[11]) o.names_exact = 0;     /* row names omitted: generated names */
				/* column names always exact; rows may be unnamed */
				int c = cmp_problem (R, E, &o, why, sizeof why);
				tr_int (c);
				if (c) {
					SBuf b1; sb_init (&b1); ref_dump (&b1, R, 1);
					viol ("C10", rd_mps ? "mps-denotes-other-problem" : "lp-denotes-other-problem", "problem delivered differs from what the text denotes: %s: %s\n--- read ---\n%.600s\n--- text ---\n%.1500s", why, desc.s, b1.s, text.s);
					sb_free (&b1);
				} else if (rd_post) {
					/* feed the shapes into the writers too (C08/C09): write, read, compare with what the first text denoted */
					for (int w = 0; w < 2; w++) {
						const char *wf = w ? "MPS" : "LP"; char fname[32]; int wrv = 0;
						mpq_QSprob q2 = write_read (q, wf, -1, 5 + w, &wrv, fname, sizeof fname);
						STAT ("executions");
						const char *prop = w ? "C09" : "C08";
						if (wrv) viol (prop, w ? "write-MPS-failed" : "write-LP-failed", "writer returned %d for a problem read from: %s", wrv, desc.s);
						else if (!q2) viol (prop, w ? "read-MPS-rejects-own-output" : "read-LP-rejects-own-output", "the reader rejects the writer's output for a problem read from: %s", desc.s);
						else {
							RefLP *R2 = qsx_readback (q2, why, sizeof why);
							CmpOpt o2 = { !w, 1, 0 };
							if (R2 && cmp_problem (R2, E, &o2, why, sizeof why) == 1) viol (prop, w ? "roundtrip-MPS-differs" : "roundtrip-LP-differs", "after %s write/read the problem differs: %s: %s", wf, why, desc.s);
							if (R2) ref_free (R2);
							mpq_QSfree_prob (q2);
						}
						unlink (fname);
					}
				}
				ref_free (R);
			}
			mpq_QSfree_prob (q);
		}
		if (!g_verbose) unlink (fn);
		if (g_verbose) vlog ("%s\n--- text ---\n%s\n", desc.s, text.s);
		if (sample_wanted ()) sample ("%s", desc.s);
	}
	ref_free (E);
OUT:
	sb_free (&desc); sb_free (&text);
	ref_free (M);
}
static void rd_finish (void) { qsx_stop (); }
Family fam_rd = { "rd", "independently rendered LP/MPS text with <= k lexical deviations -> reader -> model (C10; feeds C08/C09); --opt fmt=LP|MPS --opt k=K", rd_init, rd_count, rd_run, rd_finish, 60 };
