/* E-HIST: exhaustive exploration of API-call histories on the real mpq_QSprob,
 * stepped in lock-step with the dense rational reference model.
 * One item = (start problem, op_1 .. op_d); the history is replayed on a fresh
 * object; all invariants are evaluated after the last op (prefixes are items
 * of the shallower runs).  Decides C05 C06 (C14b, C17, C18, C20 oracles ride along). */
#include <stdlib.h>
#include <string.h>
#include <unistd.h>
#include "qsx.h"

/* ------------------------------------------------------------ state */
typedef struct HState {
	mpq_QSprob p;
	RefLP *M;
	int edited_since_solve;   /* an edit op happened after the last solve (or never solved) */
	int ever_solved;
	int last_entry;           /* ENTRY_* of the last solve op */
	SolveObs *last;           /* observation of the last solve op (or NULL) */
	int newname_ctr;
	SBuf desc;
	int inapplicable;         /* set when an op had no valid instantiation in this state */
	int failed_valid;         /* a valid call returned non-zero */
	char failmsg[300];
} HState;

int io_roundtrip_check (mpq_QSprob p, const RefLP * M, const char *fname, const char *fmt, char *why, size_t wl);   /* h_io.c */
#define NSTART 11
static const char *start_name[NSTART] = { "empty", "1x1", "testsuite3x2", "ranged2x2", "degenerate3x3", "infeasible2x2", "singleton3x3", "mip3x2-read", "slackrows2x2", "slackends3x2", "upperonly2x1" };

static void Q (mpq_t q, const char *s) { q_set_str (q, s); }
static void m_col (RefLP * M, const char *obj, const char *lo, const char *up, const char *name)
{
	mpq_t o, l, u; mpq_init (o); mpq_init (l); mpq_init (u);
	Q (o, obj); if (lo) Q (l, lo); if (up) Q (u, up);
	ref_add_col (M, o, l, lo == NULL, u, up == NULL, name);
	mpq_clear (o); mpq_clear (l); mpq_clear (u);
}
static void m_row (RefLP * M, char sense, const char *rhs, const char *range, const char *name, const char **coef)
{
	mpq_t r, g; mpq_init (r); mpq_init (g);
	Q (r, rhs); if (range) Q (g, range);
	int i = ref_add_row (M, sense, r, g, name);
	for (int c = 0; c < M->n; c++) Q (REF_A (M, i, c), coef[c]);
	mpq_clear (r); mpq_clear (g);
}
static RefLP *make_start (int s)
{
	RefLP *M;
	switch (s) {
	case 0: return ref_new (REF_MIN);
	case 1: { M = ref_new (REF_MIN); m_col (M, "1", "0", NULL, "x"); const char *c[] = { "1" }; m_row (M, 'G', "1", NULL, "c1", c); return M; }
	case 2: {
		M = ref_new (REF_MAX);
		m_col (M, "3", "2", NULL, "x"); m_col (M, "2", NULL, NULL, "y"); m_col (M, "4", "1", "10", "z");
		const char *r1[] = { "3", "2", "1" }, *r2[] = { "5", "1", "0" };
		m_row (M, 'L', "12", NULL, "c1", r1); m_row (M, 'E', "10", NULL, "c2", r2); return M;
	}
	case 3: {
		M = ref_new (REF_MIN);
		m_col (M, "1", "0", NULL, "x"); m_col (M, "-1", NULL, NULL, "y");
		const char *r1[] = { "1", "1" }, *r2[] = { "1", "-1" };
		m_row (M, 'R', "0", "4", "c1", r1); m_row (M, 'L', "2", NULL, "c2", r2); return M;
	}
	case 4: {
		M = ref_new (REF_MAX);
		m_col (M, "1", "0", NULL, "x"); m_col (M, "1", "0", NULL, "y"); m_col (M, "1", "0", NULL, "z");
		const char *r1[] = { "1", "1", "0" }, *r2[] = { "0", "1", "1" }, *r3[] = { "1", "1", "1" };
		m_row (M, 'L', "1", NULL, "c1", r1); m_row (M, 'L', "1", NULL, "c2", r2); m_row (M, 'L', "1", NULL, "c3", r3); return M;
	}
	case 5: {
		M = ref_new (REF_MIN);
		m_col (M, "1", "0", NULL, "x"); m_col (M, "0", "0", NULL, "y");
		const char *r1[] = { "1", "1" };
		m_row (M, 'L', "1", NULL, "c1", r1); m_row (M, 'G', "2", NULL, "c2", r1); return M;
	}
	case 10: {
		/* the basic variable of the optimum has an upper bound only; zeroing its coefficient makes the kept basis singular */
		M = ref_new (REF_MIN);
		m_col (M, "-2", "0", "4", "x"); m_col (M, "-1", NULL, "2", "y");
		const char *r1[] = { "1", "1" };
		m_row (M, 'L', "5", NULL, "c1", r1); return M;
	}
	case 9: {
		/* first and last row slack, middle row binding: deleting rows {last, first} in one call keeps the cached solution and must re-align it */
		M = ref_new (REF_MIN);
		m_col (M, "1", "1", NULL, "x"); m_col (M, "1", "1", "6", "y");
		const char *r1[] = { "1", "1" }, *r2[] = { "1", "2" }, *r3[] = { "1", "-1" };
		m_row (M, 'L', "10", NULL, "c1", r1); m_row (M, 'G', "4", NULL, "c2", r2); m_row (M, 'G', "-5", NULL, "c3", r3); return M;
	}
	case 8: {
		/* both rows are slack (basic) at the optimum: deleting all rows of the solved problem keeps basis and cached solution */
		M = ref_new (REF_MIN);
		m_col (M, "1", "1", NULL, "x"); m_col (M, "1", "1", "6", "y");
		const char *r1[] = { "1", "1" }, *r2[] = { "1", "-1" };
		m_row (M, 'L', "10", NULL, "c1", r1); m_row (M, 'G', "-5", NULL, "c2", r2); return M;
	}
	case 7: {
		/* the problem with integer markers that build_start() reads from LP text (the only public way to get markers) */
		M = ref_new (REF_MAX);
		m_col (M, "3", "2", NULL, "x"); m_col (M, "2", NULL, NULL, "y"); m_col (M, "4", "1", "10", "z");
		const char *r1[] = { "3", "2", "1" }, *r2[] = { "5", "1", "0" };
		m_row (M, 'L', "12", NULL, "c1", r1); m_row (M, 'E', "10", NULL, "c2", r2);
		M->isint[0] = 1; M->isint[2] = 1; return M;
	}
	default: {
		/* a column whose only entry sits in the last row, stored right after a column that does not touch that row */
		M = ref_new (REF_MAX);
		m_col (M, "1", "0", NULL, "x"); m_col (M, "1", "0", NULL, "y"); m_col (M, "1", "0", NULL, "z");
		const char *r1[] = { "1", "1", "0" }, *r2[] = { "1", "-1", "0" }, *r3[] = { "0", "0", "1" };
		m_row (M, 'L', "4", NULL, "c1", r1); m_row (M, 'L', "1", NULL, "c2", r2); m_row (M, 'L', "3", NULL, "c3", r3); return M;
	}
	}
}

static mpq_QSprob build_start (int start, const RefLP * M)
{
	/* degenerate3x3 and slackrows2x2 are built rows first (non-identity structural map) */
	if (start != 7) return qsx_build (M, start == 3 ? ROUTE_ROWS : (start == 4 || start == 8) ? ROUTE_COLS : ROUTE_LOAD, 0);
	static const char *txt = "Maximize\n obj: 3 x + 2 y + 4 z\nSubject To\n c1: 3 x + 2 y + z <= 12\n c2: 5 x + y = 10\nBounds\n 2 <= x\n y free\n 1 <= z <= 10\nInteger\n x z\nEnd\n";
	FILE *f = fopen ("start7.lp", "w");
	if (!f) return NULL;
	fputs (txt, f); fclose (f);
	mpq_QSprob p = mpq_QSread_prob ("start7.lp", "LP");
	unlink ("start7.lp");
	return p;
}

/* ------------------------------------------------------------ op table */
enum {
	OP_SOLVE_EXACT_D, OP_SOLVE_EXACT_P, OP_SOLVE_PRIMAL, OP_SOLVE_DUAL,
	OP_ADD_ROW, OP_ADD_RANGED_ROW, OP_ADD_ROWS2, OP_NEW_ROW,
	OP_ADD_COL, OP_NEW_COL, OP_ADD_COLS2,
	OP_DEL_ROW, OP_DEL_ROWS, OP_DEL_SETROWS, OP_DEL_NAMED_ROW, OP_DEL_NAMED_ROWS_LIST,
	OP_DEL_COL, OP_DEL_COLS, OP_DEL_SETCOLS, OP_DEL_NAMED_COL, OP_DEL_NAMED_COLS_LIST,
	OP_CHG_COEF, OP_CHG_OBJ, OP_CHG_RHS, OP_CHG_RANGE, OP_CHG_SENSE, OP_CHG_SENSES,
	OP_CHG_BOUND, OP_CHG_BOUNDS, OP_CHG_OBJSENSE,
	OP_LOAD_BASIS, OP_LOAD_BASIS_ARRAY, OP_WRITE_READ_LOAD_BASIS, OP_WRITE_BASIS, OP_WRITE_PROB,
	OP_COPY_CONT, OP_COPY_FREE, OP_SET_PARAM, OP_GET_BASIS_FREE,
	OP__COUNT
};
typedef struct { int op; int nvar; const char *name; int reduced; /* number of variants kept in the reduced alphabet */ } OpDef;
static const OpDef opdefs[OP__COUNT] = {
	{ OP_SOLVE_EXACT_D, 1, "solve_exact_dual", 1 }, { OP_SOLVE_EXACT_P, 1, "solve_exact_primal", 1 },
	{ OP_SOLVE_PRIMAL, 1, "opt_primal", 1 }, { OP_SOLVE_DUAL, 1, "opt_dual", 1 },
	{ OP_ADD_ROW, 4, "add_row", 2 }, { OP_ADD_RANGED_ROW, 2, "add_ranged_row", 1 }, { OP_ADD_ROWS2, 1, "add_rows(2)", 0 }, { OP_NEW_ROW, 1, "new_row", 0 },
	{ OP_ADD_COL, 3, "add_col", 1 }, { OP_NEW_COL, 2, "new_col", 0 }, { OP_ADD_COLS2, 1, "add_cols(2)", 0 },
	{ OP_DEL_ROW, 2, "delete_row", 2 }, { OP_DEL_ROWS, 1, "delete_rows", 0 }, { OP_DEL_SETROWS, 1, "delete_setrows", 0 },
	{ OP_DEL_NAMED_ROW, 1, "delete_named_row", 0 }, { OP_DEL_NAMED_ROWS_LIST, 1, "delete_named_rows_list", 0 },
	{ OP_DEL_COL, 2, "delete_col", 2 }, { OP_DEL_COLS, 1, "delete_cols", 0 }, { OP_DEL_SETCOLS, 1, "delete_setcols", 0 },
	{ OP_DEL_NAMED_COL, 1, "delete_named_column", 0 }, { OP_DEL_NAMED_COLS_LIST, 1, "delete_named_columns_list", 0 },
	{ OP_CHG_COEF, 4, "change_coef", 1 }, { OP_CHG_OBJ, 2, "change_objcoef", 1 }, { OP_CHG_RHS, 2, "change_rhscoef", 1 },
	{ OP_CHG_RANGE, 2, "change_range", 1 }, { OP_CHG_SENSE, 4, "change_sense", 2 }, { OP_CHG_SENSES, 1, "change_senses", 0 },
	{ OP_CHG_BOUND, 5, "change_bound", 2 }, { OP_CHG_BOUNDS, 1, "change_bounds", 0 }, { OP_CHG_OBJSENSE, 2, "change_objsense", 1 },
	{ OP_LOAD_BASIS, 2, "load_basis", 1 }, { OP_LOAD_BASIS_ARRAY, 1, "load_basis_array", 0 }, { OP_WRITE_READ_LOAD_BASIS, 1, "write_basis+read_and_load_basis", 0 },
	{ OP_WRITE_BASIS, 1, "write_basis(NULL)", 1 }, { OP_WRITE_PROB, 2, "write_prob", 0 },
	{ OP_COPY_CONT, 1, "copy_prob;continue_on_copy", 1 }, { OP_COPY_FREE, 1, "copy_prob;free_copy", 0 }, { OP_SET_PARAM, 4, "set_param", 0 }, { OP_GET_BASIS_FREE, 1, "get_basis;free_basis", 0 },
};
typedef struct { int op, var; } Trans;
static Trans alpha_full[256], alpha_red[256];
static int n_full, n_red;
static void build_alphabets (void)
{
	n_full = n_red = 0;
	for (int i = 0; i < OP__COUNT; i++) {
		for (int v = 0; v < opdefs[i].nvar; v++) {
			alpha_full[n_full].op = i; alpha_full[n_full++].var = v;
			if (v < opdefs[i].reduced) { alpha_red[n_red].op = i; alpha_red[n_red++].var = v; }
		}
	}
}
static int is_solve (int op) { return op <= OP_SOLVE_DUAL; }
static int is_neutral (int op) { return op == OP_LOAD_BASIS || op == OP_LOAD_BASIS_ARRAY || op == OP_WRITE_READ_LOAD_BASIS || op == OP_WRITE_BASIS || op == OP_WRITE_PROB || op == OP_COPY_CONT || op == OP_COPY_FREE || op == OP_SET_PARAM || op == OP_GET_BASIS_FREE; }

/* ------------------------------------------------------------ helpers */
static void adopt_new_names (HState * S)
{
	/* unnamed additions get generated names: adopt them into the model (uniqueness and
	 * stability are then checked by the conformance check on every later step) */
	RefLP *M = S->M;
	int need = 0;
	for (int c = 0; c < M->n; c++) if (!M->cname[c]) need = 1;
	for (int r = 0; r < M->m; r++) if (!M->rname[r]) need = 1;
	if (!need) return;
	char **na = calloc ((size_t) (M->n + M->m + 1), sizeof (char *));
	if (M->n && mpq_QSget_colcount (S->p) == M->n && !mpq_QSget_colnames (S->p, na)) {
		for (int c = 0; c < M->n; c++) { if (!M->cname[c] && na[c]) ref_set_cname (M, c, na[c]); if (na[c]) { mpq_QSfree (na[c]); na[c] = 0; } }
	}
	if (M->m && mpq_QSget_rowcount (S->p) == M->m && !mpq_QSget_rownames (S->p, na)) {
		for (int r = 0; r < M->m; r++) { if (!M->rname[r] && na[r]) ref_set_rname (M, r, na[r]); if (na[r]) { mpq_QSfree (na[r]); na[r] = 0; } }
	}
	free (na);
}
static void newname (HState * S, char *buf, size_t bl, const char *pfx) { snprintf (buf, bl, "%s%d", pfx, ++S->newname_ctr); }
#define CALL(expr) do { int _rv = (expr); if (_rv) { S->failed_valid = 1; snprintf (S->failmsg, sizeof S->failmsg, "%s returned %d", #expr, _rv); goto OUT; } } while (0)

static void do_solve (HState * S, int entry, int algo)
{
	Cfg c; cfg_default (&c); c.entry = entry; c.algo = algo;
	if (S->last) obs_free (S->last);
	S->last = obs_new (S->M->n, S->M->m);
	qsx_solve (S->p, &c, NULL, S->last);
	S->edited_since_solve = 0; S->ever_solved = 1; S->last_entry = entry;
}

static void apply_op (HState * S, Trans t)
{
	RefLP *M = S->M; mpq_QSprob p = S->p;
	int n = M->n, m = M->m, v = t.var;
	mpq_t a, b, c; mpq_init (a); mpq_init (b); mpq_init (c);
	int ind[16]; mpq_t val[16]; for (int i = 0; i < 16; i++) mpq_init (val[i]);
	char nm[32], nm2[32];
	sb_printf (&S->desc, " ; %s#%d", opdefs[t.op].name, v);
	if (!is_solve (t.op) && !is_neutral (t.op)) S->edited_since_solve = 1;
	/* out of scope (DESIGN 3/C05): solving or writing a problem without any column */
	if ((is_solve (t.op) || t.op == OP_WRITE_PROB) && n == 0) { S->inapplicable = 1; goto OUT; }
	switch (t.op) {
	case OP_SOLVE_EXACT_D: do_solve (S, ENTRY_EXACT, DUAL_SIMPLEX); break;
	case OP_SOLVE_EXACT_P: do_solve (S, ENTRY_EXACT, PRIMAL_SIMPLEX); break;
	case OP_SOLVE_PRIMAL: do_solve (S, ENTRY_PRIMAL, 0); break;
	case OP_SOLVE_DUAL: do_solve (S, ENTRY_DUAL, 0); break;
	case OP_ADD_ROW: {
		/* 0: L ones rhs 2 (named) ; 1: G alternating rhs 0 (unnamed) ; 2: E first column only rhs 1 ; 3: L row with an explicit zero and last column 3, rhs 7/2 */
		char sense = v == 0 ? 'L' : v == 1 ? 'G' : v == 2 ? 'E' : 'L';
		int k = 0;
		if (v == 0) { for (int j = 0; j < n && k < 8; j++) { ind[k] = j; mpq_set_si (val[k], 1, 1); k++; } Q (a, "2"); }
		else if (v == 1) { for (int j = 0; j < n && k < 8; j++) { ind[k] = j; mpq_set_si (val[k], j % 2 ? -1 : 1, 1); k++; } Q (a, "0"); }
		else if (v == 2) { if (n) { ind[0] = 0; mpq_set_si (val[0], 1, 1); k = 1; } Q (a, "1"); }
		else { if (n) { ind[k] = 0; mpq_set_si (val[k], 0, 1); k++; if (n > 1) { ind[k] = n - 1; mpq_set_si (val[k], 3, 1); k++; } } Q (a, "7/2"); }
		const char *name = NULL;
		if (v != 1) { newname (S, nm, sizeof nm, "nr"); name = nm; }
		CALL (mpq_QSadd_row (p, k, ind, val, &a, sense, name));
		int r = ref_add_row (M, sense, a, NULL, name);
		for (int i = 0; i < k; i++) mpq_set (REF_A (M, r, ind[i]), val[i]);
		break;
	}
	case OP_ADD_RANGED_ROW: {
		int k = 0;
		for (int j = 0; j < n && k < 8; j++) { ind[k] = j; mpq_set_si (val[k], 1, 1); k++; }
		Q (a, "0"); Q (b, v == 0 ? "3" : "0");
		newname (S, nm, sizeof nm, "rr");
		CALL (mpq_QSadd_ranged_row (p, k, ind, val, &a, 'R', &b, nm));
		int r = ref_add_row (M, 'R', a, b, nm);
		for (int i = 0; i < k; i++) mpq_set (REF_A (M, r, ind[i]), val[i]);
		break;
	}
	case OP_ADD_ROWS2: {
		int cnt[2], beg[2], k = 0; char sense[2] = { 'L', 'G' }; mpq_t rhs[2]; mpq_init (rhs[0]); mpq_init (rhs[1]);
		beg[0] = 0; for (int j = 0; j < n && k < 6; j++) { ind[k] = j; mpq_set_si (val[k], 2, 1); k++; } cnt[0] = k;
		beg[1] = k; if (n) { ind[k] = n - 1; mpq_set_si (val[k], 1, 1); k++; } cnt[1] = k - beg[1];
		Q (rhs[0], "5"); Q (rhs[1], "-1");
		newname (S, nm, sizeof nm, "na"); newname (S, nm2, sizeof nm2, "nb");
		const char *names[2] = { nm, nm2 };
		int rv = mpq_QSadd_rows (p, 2, cnt, beg, ind, val, rhs, sense, names);
		if (!rv) for (int q = 0; q < 2; q++) { int r = ref_add_row (M, sense[q], rhs[q], NULL, names[q]); for (int i = 0; i < cnt[q]; i++) mpq_set (REF_A (M, r, ind[beg[q] + i]), val[beg[q] + i]); }
		mpq_clear (rhs[0]); mpq_clear (rhs[1]);
		CALL (rv);
		break;
	}
	case OP_NEW_ROW: {
		Q (a, "1");
		CALL (mpq_QSnew_row (p, a, 'E', NULL));
		ref_add_row (M, 'E', a, NULL, NULL);
		break;
	}
	case OP_ADD_COL: {
		/* 0: coefs on first and last row, obj 1, [0,inf) ; 1: free column all ones obj -1 (unnamed) ; 2: bounded [0,2] first row coef -2 obj 3 */
		int k = 0; const char *name = NULL;
		if (v == 0) { if (m) { ind[k] = 0; mpq_set_si (val[k], 1, 1); k++; } if (m > 1) { ind[k] = m - 1; mpq_set_si (val[k], 1, 2); k++; } Q (a, "1"); Q (b, "0"); mpq_set (c, mpq_ILL_MAXDOUBLE); newname (S, nm, sizeof nm, "nc"); name = nm; }
		else if (v == 1) { for (int i = 0; i < m && k < 8; i++) { ind[k] = i; mpq_set_si (val[k], 1, 1); k++; } Q (a, "-1"); mpq_set (b, mpq_ILL_MINDOUBLE); mpq_set (c, mpq_ILL_MAXDOUBLE); }
		else { if (m) { ind[k] = 0; mpq_set_si (val[k], -2, 1); k++; } Q (a, "3"); Q (b, "0"); Q (c, "2"); newname (S, nm, sizeof nm, "nc"); name = nm; }
		CALL (mpq_QSadd_col (p, k, ind, val, a, b, c, name));
		int j = ref_add_col (M, a, b, q_is_ninf (b), c, q_is_pinf (c), name);
		for (int i = 0; i < k; i++) mpq_set (REF_A (M, ind[i], j), val[i]);
		break;
	}
	case OP_NEW_COL: {
		Q (a, v ? "-2" : "1"); Q (b, "0"); Q (c, "1");
		const char *name = NULL; if (v == 0) { newname (S, nm, sizeof nm, "nv"); name = nm; }
		CALL (mpq_QSnew_col (p, a, b, c, name));
		ref_add_col (M, a, b, 0, c, 0, name);
		break;
	}
	case OP_ADD_COLS2: {
		int cnt[2], beg[2], k = 0; mpq_t ob[2], lo[2], up[2];
		for (int q = 0; q < 2; q++) { mpq_init (ob[q]); mpq_init (lo[q]); mpq_init (up[q]); }
		beg[0] = 0; if (m) { ind[k] = m - 1; mpq_set_si (val[k], 1, 1); k++; } cnt[0] = k;
		beg[1] = k; for (int i = 0; i < m && k < 8; i++) { ind[k] = i; mpq_set_si (val[k], -1, 1); k++; } cnt[1] = k - beg[1];
		Q (ob[0], "1"); Q (lo[0], "0"); mpq_set (up[0], mpq_ILL_MAXDOUBLE);
		Q (ob[1], "0"); Q (lo[1], "-1"); Q (up[1], "1");
		newname (S, nm, sizeof nm, "ca"); newname (S, nm2, sizeof nm2, "cb");
		const char *names[2] = { nm, nm2 };
		int rv = mpq_QSadd_cols (p, 2, cnt, beg, ind, val, ob, lo, up, names);
		if (!rv) for (int q = 0; q < 2; q++) { int j = ref_add_col (M, ob[q], lo[q], 0, up[q], q_is_pinf (up[q]), names[q]); for (int i = 0; i < cnt[q]; i++) mpq_set (REF_A (M, ind[beg[q] + i], j), val[beg[q] + i]); }
		for (int q = 0; q < 2; q++) { mpq_clear (ob[q]); mpq_clear (lo[q]); mpq_clear (up[q]); }
		CALL (rv);
		break;
	}
	case OP_DEL_ROW: case OP_DEL_ROWS: case OP_DEL_SETROWS: case OP_DEL_NAMED_ROW: case OP_DEL_NAMED_ROWS_LIST: {
		if (m == 0 || (t.op == OP_DEL_ROWS && m < 2)) { S->inapplicable = 1; break; }
		int *fl = calloc ((size_t) m + 1, sizeof (int));
		if (t.op == OP_DEL_ROW) { int r = v == 0 ? 0 : m - 1; fl[r] = 1; int rv = mpq_QSdelete_row (p, r); if (rv) { free (fl); CALL (rv); } }
		else if (t.op == OP_DEL_ROWS) { int l[2] = { m - 1, 0 }; fl[0] = fl[m - 1] = 1; int rv = mpq_QSdelete_rows (p, 2, l); if (rv) { free (fl); CALL (rv); } }
		else if (t.op == OP_DEL_SETROWS) { fl[0] = 1; int rv = mpq_QSdelete_setrows (p, fl); if (rv) { free (fl); CALL (rv); } }
		else if (t.op == OP_DEL_NAMED_ROW) { if (!M->rname[m - 1]) { S->inapplicable = 1; free (fl); break; } fl[m - 1] = 1; int rv = mpq_QSdelete_named_row (p, M->rname[m - 1]); if (rv) { free (fl); CALL (rv); } }
		else { if (!M->rname[0]) { S->inapplicable = 1; free (fl); break; } fl[0] = 1; const char *l[1] = { M->rname[0] }; int rv = mpq_QSdelete_named_rows_list (p, 1, l); if (rv) { free (fl); CALL (rv); } }
		ref_del_rows (M, fl); free (fl);
		break;
	}
	case OP_DEL_COL: case OP_DEL_COLS: case OP_DEL_SETCOLS: case OP_DEL_NAMED_COL: case OP_DEL_NAMED_COLS_LIST: {
		if (n == 0 || (t.op == OP_DEL_COLS && n < 2)) { S->inapplicable = 1; break; }
		int *fl = calloc ((size_t) n + 1, sizeof (int));
		if (t.op == OP_DEL_COL) { int j = v == 0 ? 0 : n - 1; fl[j] = 1; int rv = mpq_QSdelete_col (p, j); if (rv) { free (fl); CALL (rv); } }
		else if (t.op == OP_DEL_COLS) { int l[2] = { n - 1, 0 }; fl[0] = fl[n - 1] = 1; int rv = mpq_QSdelete_cols (p, 2, l); if (rv) { free (fl); CALL (rv); } }
		else if (t.op == OP_DEL_SETCOLS) { fl[n - 1] = 1; int rv = mpq_QSdelete_setcols (p, fl); if (rv) { free (fl); CALL (rv); } }
		else if (t.op == OP_DEL_NAMED_COL) { if (!M->cname[n - 1]) { S->inapplicable = 1; free (fl); break; } fl[n - 1] = 1; int rv = mpq_QSdelete_named_column (p, M->cname[n - 1]); if (rv) { free (fl); CALL (rv); } }
		else { if (!M->cname[0]) { S->inapplicable = 1; free (fl); break; } fl[0] = 1; const char *l[1] = { M->cname[0] }; int rv = mpq_QSdelete_named_columns_list (p, 1, l); if (rv) { free (fl); CALL (rv); } }
		ref_del_cols (M, fl); free (fl);
		break;
	}
	case OP_CHG_COEF: {
		if (!n || !m) { S->inapplicable = 1; break; }
		int r = v == 1 ? m - 1 : 0, j = v == 0 ? 0 : n - 1;
		Q (a, v == 0 ? "5/2" : v == 1 ? "0" : v == 2 ? "-1" : "7/3");
		if (v == 3) {
			/* a NEW non-zero in a column that is not the last one of the sparse store (no free slot behind it) */
			r = -1;
			for (int jj = 0; jj < n - 1 && r < 0; jj++) for (int rr = 0; rr < m; rr++) if (!mpq_sgn (REF_A (M, rr, jj))) { r = rr; j = jj; break; }
			if (r < 0) { S->inapplicable = 1; break; }
		}
		CALL (mpq_QSchange_coef (p, r, j, a));
		mpq_set (REF_A (M, r, j), a);
		break;
	}
	case OP_CHG_OBJ: {
		if (!n) { S->inapplicable = 1; break; }
		int j = v == 0 ? 0 : n - 1; Q (a, v == 0 ? "0" : "-3");
		CALL (mpq_QSchange_objcoef (p, j, a));
		mpq_set (M->obj[j], a);
		break;
	}
	case OP_CHG_RHS: {
		if (!m) { S->inapplicable = 1; break; }
		int r = v == 0 ? 0 : m - 1;
		if (v == 0) { mpq_set_si (a, 1, 1); mpq_add (a, a, M->rhs[r]); } else Q (a, "-2");
		CALL (mpq_QSchange_rhscoef (p, r, a));
		mpq_set (M->rhs[r], a);
		break;
	}
	case OP_CHG_RANGE: {
		int r = -1;
		for (int i = 0; i < m; i++) if (M->sense[i] == 'R') { r = i; if (v == 0) break; }
		if (r < 0) { S->inapplicable = 1; break; }
		Q (a, v == 0 ? "5" : "1/2");
		CALL (mpq_QSchange_range (p, r, a));
		mpq_set (M->range[r], a);
		break;
	}
	case OP_CHG_SENSE: {
		if (!m) { S->inapplicable = 1; break; }
		static const char ss[4] = { 'R', 'G', 'E', 'L' };
		int r = (v == 1) ? m - 1 : 0;
		if (M->sense[r] == ss[v] && ss[v] != 'R') r = m - 1 - r >= 0 ? m - 1 - r : r;
		CALL (mpq_QSchange_sense (p, r, ss[v]));
		M->sense[r] = ss[v];
		mpq_set_ui (M->range[r], 0, 1);   /* documented: a row changed to 'R' is an equation until change_range */
		break;
	}
	case OP_CHG_SENSES: {
		if (m < 2) { S->inapplicable = 1; break; }
		int l[2] = { m - 1, 0 }; char s2[2] = { 'G', 'L' };
		CALL (mpq_QSchange_senses (p, 2, l, s2));
		M->sense[m - 1] = 'G'; M->sense[0] = 'L'; mpq_set_ui (M->range[0], 0, 1); mpq_set_ui (M->range[m - 1], 0, 1);
		break;
	}
	case OP_CHG_BOUND: {
		if (!n) { S->inapplicable = 1; break; }
		/* 0: (first,L,1) 1: (last,U,3) 2: (first,B,2) 3: (first,U,+inf) 4: (last,L,-inf) */
		int j = (v == 1 || v == 4) ? n - 1 : 0; char lu = v == 0 || v == 4 ? 'L' : v == 2 ? 'B' : 'U';
		if (v == 0) Q (a, "1"); else if (v == 1) Q (a, "3"); else if (v == 2) Q (a, "2"); else if (v == 3) mpq_set (a, mpq_ILL_MAXDOUBLE); else mpq_set (a, mpq_ILL_MINDOUBLE);
		CALL (mpq_QSchange_bound (p, j, lu, a));
		if (lu == 'L' || lu == 'B') { M->loinf[j] = (char) q_is_ninf (a); if (!M->loinf[j]) mpq_set (M->lo[j], a); }
		if (lu == 'U' || lu == 'B') { M->upinf[j] = (char) q_is_pinf (a); if (!M->upinf[j]) mpq_set (M->up[j], a); }
		break;
	}
	case OP_CHG_BOUNDS: {
		if (n < 2) { S->inapplicable = 1; break; }
		int l[2] = { n - 1, 0 }; char lu[2] = { 'U', 'L' }; mpq_t bd[2]; mpq_init (bd[0]); mpq_init (bd[1]); Q (bd[0], "4"); Q (bd[1], "-1");
		int rv = mpq_QSchange_bounds (p, 2, l, lu, bd);
		if (!rv) { M->upinf[n - 1] = 0; mpq_set (M->up[n - 1], bd[0]); M->loinf[0] = 0; mpq_set (M->lo[0], bd[1]); }
		mpq_clear (bd[0]); mpq_clear (bd[1]);
		CALL (rv);
		break;
	}
	case OP_CHG_OBJSENSE: {
		int ns = v == 0 ? (M->objsense == REF_MIN ? QS_MAX : QS_MIN) : (M->objsense == REF_MIN ? QS_MIN : QS_MAX);
		CALL (mpq_QSchange_objsense (p, ns));
		M->objsense = ns == QS_MIN ? REF_MIN : REF_MAX;
		break;
	}
	case OP_LOAD_BASIS: {
		QSbasis *B = NULL;
		if (v == 0) { B = mpq_QSget_basis (p); if (!B) { S->inapplicable = 1; break; } }
		else {
			B = calloc (1, sizeof *B); B->nstruct = n; B->nrows = m; B->cstat = malloc ((size_t) n + 1); B->rstat = malloc ((size_t) m + 1);
			for (int j = 0; j < n; j++) B->cstat[j] = !M->loinf[j] ? QS_COL_BSTAT_LOWER : !M->upinf[j] ? QS_COL_BSTAT_UPPER : QS_COL_BSTAT_FREE;
			for (int i = 0; i < m; i++) B->rstat[i] = QS_ROW_BSTAT_BASIC;
		}
		int rv = mpq_QSload_basis (p, B);
		mpq_QSfree_basis (B);
		CALL (rv);
		break;
	}
	case OP_LOAD_BASIS_ARRAY: {
		char *cs = malloc ((size_t) n + 1), *rs = malloc ((size_t) m + 1);
		for (int j = 0; j < n; j++) cs[j] = !M->loinf[j] ? QS_COL_BSTAT_LOWER : !M->upinf[j] ? QS_COL_BSTAT_UPPER : QS_COL_BSTAT_FREE;
		for (int i = 0; i < m; i++) rs[i] = QS_ROW_BSTAT_BASIC;
		int rv = mpq_QSload_basis_array (p, cs, rs);
		free (cs); free (rs);
		CALL (rv);
		break;
	}
	case OP_WRITE_READ_LOAD_BASIS: case OP_WRITE_BASIS: {
		QSbasis *B = mpq_QSget_basis (p);
		if (!B) { S->inapplicable = 1; break; }
		{ int wr = mpq_QSwrite_basis (p, NULL, "h.bas"); if (wr) { mpq_QSfree_basis (B); CALL (wr); } }
		/* C14 inside a history: the file must describe the basis stored with the problem, whatever was solved or loaded before */
		{
			QSbasis *R = mpq_QSread_basis (p, "h.bas");
			if (!R) viol ("C14", "hist-read-basis-failed", "mpq_QSread_basis cannot read the file mpq_QSwrite_basis(p, NULL, f) wrote [history: %s]", S->desc.s);
			else {
				int bad = (R->nstruct != B->nstruct || R->nrows != B->nrows);
				for (int j = 0; j < B->nstruct && !bad; j++) {
					char a = B->cstat[j], b2 = R->cstat[j];
					if (a == b2) continue;
					/* non-basic free columns may come back as free instead of at-lower and vice versa */
					if ((a == QS_COL_BSTAT_FREE && b2 == QS_COL_BSTAT_LOWER) || (a == QS_COL_BSTAT_LOWER && b2 == QS_COL_BSTAT_FREE && M->loinf[j] && M->upinf[j])) continue;
					bad = 1;
				}
				for (int i = 0; i < B->nrows && !bad; i++) if (B->rstat[i] != R->rstat[i]) bad = 1;
				if (bad) viol ("C14", "hist-basis-file-differs", "the file written by mpq_QSwrite_basis(p, NULL, f) reads back as cstat=%.*s rstat=%.*s but mpq_QSget_basis reports cstat=%.*s rstat=%.*s [history: %s]",
					R->nstruct, R->cstat, R->nrows, R->rstat, B->nstruct, B->cstat, B->nrows, B->rstat, S->desc.s);
				mpq_QSfree_basis (R);
			}
		}
		mpq_QSfree_basis (B);
		if (t.op == OP_WRITE_READ_LOAD_BASIS) CALL (mpq_QSread_and_load_basis (p, "h.bas"));
		break;
	}
	case OP_WRITE_PROB: {
		int wr = mpq_QSwrite_prob (p, v ? "h.mps" : "h.lp", v ? "MPS" : "LP");
		if (wr) CALL (wr);
		char w[700];
		if (io_roundtrip_check (p, M, v ? "h.mps" : "h.lp", v ? "MPS" : "LP", w, sizeof w))
			viol (v ? "C09" : "C08", v ? "hist-roundtrip-MPS" : "hist-roundtrip-LP", "%s [history: %s]", w, S->desc.s);
		break;
	}
	case OP_COPY_CONT: case OP_COPY_FREE: {
		mpq_QSprob q = mpq_QScopy_prob (p, "copy");
		if (!q) { S->failed_valid = 1; snprintf (S->failmsg, sizeof S->failmsg, "mpq_QScopy_prob returned NULL"); break; }
		if (t.op == OP_COPY_CONT) {
			mpq_QSfree_prob (p); S->p = q;
			/* the copy carries no solution */
			S->edited_since_solve = 1; S->ever_solved = 0;
			if (S->last) { obs_free (S->last); S->last = NULL; }
		} else mpq_QSfree_prob (q);
		break;
	}
	case OP_SET_PARAM: {
		static const int which[4] = { QS_PARAM_PRIMAL_PRICING, QS_PARAM_DUAL_PRICING, QS_PARAM_SIMPLEX_SCALING, QS_PARAM_SIMPLEX_MAX_ITERATIONS };
		static const int value[4] = { QS_PRICE_PDEVEX, QS_PRICE_DDANTZIG, 0, 600000 };
		CALL (mpq_QSset_param (p, which[v], value[v]));
		break;
	}
	case OP_GET_BASIS_FREE: { QSbasis *B = mpq_QSget_basis (p); if (B) mpq_QSfree_basis (B); break; }
	}
OUT:
	for (int i = 0; i < 16; i++) mpq_clear (val[i]);
	mpq_clear (a); mpq_clear (b); mpq_clear (c);
	if (!S->inapplicable && !S->failed_valid) adopt_new_names (S);
}

/* ------------------------------------------------------------ family plumbing */
static int o_depth, o_reduced, o_sandwich, o_binv, o_verd, o_cont;
void c13_check_basis (mpq_QSprob p, const RefLP * L, const char *ctx);
void c12_check_current_basis (mpq_QSprob p, const RefLP * L, const char *ctx);
static Trans *alpha; static int nalpha;
static int idx_write_basis = -1;
static const char *o_pat = "";      /* --opt pat=SAA : per step S = one of the 4 solves, A = any operation of the alphabet, W = write_basis; overrides depth */
static int step_radix (int i)
{
	if (o_pat[0]) return o_pat[i] == 'S' ? 4 : o_pat[i] == 'W' ? 1 : nalpha;
	if (o_sandwich == 2 && i == o_depth - 1) return 1;
	return (o_sandwich && (i == 0 || i == o_depth - 1)) ? 4 : nalpha;
}   /* sandwich 1: first and last step are one of the 4 solves; 2: first a solve, last write_basis */
static void hist_init (void)
{
	build_alphabets ();
	o_depth = (int) opt_int ("depth", 1);
	o_reduced = (int) opt_int ("reduced", 0);
	alpha = o_reduced ? alpha_red : alpha_full; nalpha = o_reduced ? n_red : n_full;
	o_sandwich = (int) opt_int ("sandwich", 0);
	o_pat = opt_str ("pat", "");
	if (o_pat[0]) { o_depth = (int) strlen (o_pat); if (o_depth > 8) { fprintf (stderr, "hist: pat too long\n"); exit (2); } for (const char *c = o_pat; *c; c++) if (!strchr ("SAW", *c)) { fprintf (stderr, "hist: pat uses S, A, W\n"); exit (2); } }
	for (int i = 0; i < nalpha; i++) if (alpha[i].op == OP_WRITE_BASIS) idx_write_basis = i;
	if ((o_sandwich == 2 || strchr (o_pat, 'W')) && idx_write_basis < 0) { fprintf (stderr, "hist: sandwich=2 needs write_basis in the alphabet\n"); exit (2); }
	o_cont = (int) opt_int ("cont", 0);
	o_binv = (int) opt_int ("binv", 0);      /* after every OPTIMAL solve: B^-1 and tableau rows must multiply back (C13) */
	o_verd = (int) opt_int ("verd", 0);      /* after every step: the verdict functions on the problem's own basis (C12) */
	if (opt_int ("printalpha", 0)) { for (int i = 0; i < nalpha; i++) fprintf (stderr, "%d %s#%d\n", i, opdefs[alpha[i].op].name, alpha[i].var); }
}
static long hist_count (void) { long c = NSTART; for (int i = 0; i < o_depth; i++) c *= step_radix (i); return c; }

static const char *truth_name (int t) { return t == TRUTH_OPTIMAL ? "OPTIMAL" : t == TRUTH_INFEASIBLE ? "INFEASIBLE" : t == TRUTH_UNBOUNDED ? "UNBOUNDED" : "UNKNOWN"; }

/* accessor staleness check (C05 invariant 2): returns 0 ok */
static int check_accessors_after_edit (HState * S, Truth * T, char *why, size_t wl)
{
	RefLP *M = S->M; mpq_QSprob p = S->p;
	int n = M->n, m = M->m, rv = 0, st = -1;
	mpq_t val, sv; mpq_init (val); mpq_init (sv);
	mpq_t *x = mpq_arr_new (n + m + 1), *pi = mpq_arr_new (m + 1), *rc = mpq_arr_new (n + 1), *sl = mpq_arr_new (m + 1);
	int r_st = mpq_QSget_status (p, &st);
	int r_val = mpq_QSget_objval (p, &val);
	int r_x = mpq_QSget_x_array (p, x), r_pi = mpq_QSget_pi_array (p, pi), r_rc = mpq_QSget_rc_array (p, rc), r_sl = mpq_QSget_slack_array (p, sl);
	tr_int (r_st); tr_int (st); tr_int (r_val); tr_int (r_x); tr_int (r_pi); tr_int (r_rc); tr_int (r_sl);
	int any = (!r_x && n) || (!r_pi && m) || (!r_rc && n) || (!r_sl && m);
	if (!r_st && st == QS_LP_OPTIMAL) STAT ("stale_status_optimal_after_edit");
	if (!any && (r_st || st != QS_LP_OPTIMAL)) { STAT ("accessors_fail_after_edit"); goto DONE; }
	STAT ("accessors_answer_after_edit");
	/* something is served: it must be exactly optimal for the LP as it now stands */
	if (T->status != TRUTH_OPTIMAL) {
		if (T->status == TRUTH_UNKNOWN) goto DONE;
		snprintf (why, wl, "a solution is served (status=%s x:%d pi:%d rc:%d slack:%d) but the current LP is %s", status_name (st), r_x, r_pi, r_rc, r_sl, truth_name (T->status)); rv = 1; goto DONE;
	}
	if ((n && r_x) || (m && r_sl) || (m && r_pi) || (n && r_rc) || r_val) {
		/* partial service: check what can be checked alone */
		if (!r_x && n) {
			if (!ref_point_feasible (M, x)) { snprintf (why, wl, "get_x_array serves a point that is infeasible for the current LP"); rv = 1; goto DONE; }
			mpq_t cx, u; mpq_init (cx); mpq_init (u);
			for (int j = 0; j < n; j++) { mpq_mul (u, M->obj[j], x[j]); mpq_add (cx, cx, u); }
			int bad = !mpq_equal (cx, T->val); mpq_clear (cx); mpq_clear (u);
			if (bad) { snprintf (why, wl, "get_x_array serves a point that is not optimal for the current LP"); rv = 1; goto DONE; }
		}
		if (!r_val && st == QS_LP_OPTIMAL && !mpq_equal (val, T->val)) { snprintf (why, wl, "get_objval serves a value that is not the optimum of the current LP"); rv = 1; goto DONE; }
		goto DONE;
	}
	{
		SF *F = sf_from_ref (M); char w[300];
		for (int i = 0; i < m; i++) mpq_set (x[n + i], sl[i]);
		if (oopt_check (F, x, pi, rc, val, w, sizeof w)) { snprintf (why, wl, "served solution is not optimal for the current LP: %s", w); rv = 1; }
		sf_free (F);
	}
DONE:
	mpq_clear (val); mpq_clear (sv);
	mpq_arr_free (x, n + m + 1); mpq_arr_free (pi, m + 1); mpq_arr_free (rc, n + 1); mpq_arr_free (sl, m + 1);
	return rv;
}

static void hist_run (long item)
{
	long r = item;
	int start = (int) (r % NSTART); r /= NSTART;
	Trans seq[8];
	for (int i = 0; i < o_depth; i++) { seq[i] = alpha[r % step_radix (i)]; r /= step_radix (i); }
	if (o_sandwich == 2 && !o_pat[0]) seq[o_depth - 1] = alpha[idx_write_basis];
	if (o_pat[0]) for (int i = 0; i < o_depth; i++) if (o_pat[i] == 'W') seq[i] = alpha[idx_write_basis];
	/* prune: histories that can show nothing new */
	size_t mem0 = 0;
	char capbuf[400]; capbuf[0] = 0;
	HState S; memset (&S, 0, sizeof S);
	sb_init (&S.desc); sb_reserve (&S.desc, 4096);
	qsx_log_reset ();
	cap_begin ();
	if (mem_tracking ()) mem0 = mem_now ();
	qsx_start ();
	S.M = make_start (start);
	S.edited_since_solve = 1;
	sb_printf (&S.desc, "start=%s", start_name[start]);
	S.p = build_start (start, S.M);
	char why[700];
	int stop = 0;
	if (!S.p) { viol ("C06", "start-build-failed", "could not build start problem %s", start_name[start]); stop = 1; }
	long logs_before_last = 0;
	for (int i = 0; i < o_depth && !stop; i++) {
		int last = (i == o_depth - 1);
		logs_before_last = g_log_count;
		apply_op (&S, seq[i]);
		STAT ("api_transitions");
		if (S.inapplicable) { STAT ("histories_inapplicable"); stop = 1; break; }
		if (S.failed_valid) {
			if (last) { viol ("C06", "valid-call-rejected", "a valid call failed: %s [history: %s]", S.failmsg, S.desc.s); }
			else STAT ("prefix_violation_skipped");
			stop = 1; break;
		}
		/* conformance after every step */
		if (qsx_conform (S.p, S.M, 1, why, sizeof why)) {
			if (last) {
				char sig[96]; snprintf (sig, sizeof sig, "nonconform:%s", opdefs[seq[i].op].name);
				if (strstr (why, "get_nzcount")) snprintf (sig, sizeof sig, "nzcount:%s", opdefs[seq[i].op].name);
				viol ("C06", sig, "queries disagree with the model after the last call: %s [history: %s]", why, S.desc.s);
			} else STAT ("prefix_violation_skipped");
			if (last || !o_cont) { stop = 1; break; }
			/* cont=1: go on - what the solver answers afterwards is still judged against the problem the caller built */
		}
		if (o_binv && is_solve (seq[i].op) && S.last && !S.last->rval && S.last->status == QS_LP_OPTIMAL && S.M->n + S.M->m <= 30) {
			c13_check_basis (S.p, S.M, S.desc.s);
			/* the queries must not disturb what the solve left: same status and value afterwards */
			mpq_t v; mpq_init (v); int st = -1;
			int r1 = mpq_QSget_status (S.p, &st), r2 = mpq_QSget_objval (S.p, &v);
			if (r1 || r2 || st != QS_LP_OPTIMAL || !mpq_equal (v, S.last->objval))
				viol ("C13", "basis-queries-disturb-solution", "after QSget_basis_order / QSget_binv_row / QSget_tableau_row: get_status rval=%d status=%s, get_objval rval=%d, value %s the solve's [history: %s]", r1, status_name (st), r2, (!r2 && mpq_equal (v, S.last->objval)) ? "equals" : "differs from", S.desc.s);
			mpq_clear (v);
		}
		if (o_verd) c12_check_current_basis (S.p, S.M, S.desc.s);
	}
	if (!stop) {
		STAT ("histories");
		Trans lt = seq[o_depth - 1];
		Truth *T = ref_solve (S.M);
		if (T->selfcheck_failed) viol ("HARNESS", "ref-selfcheck", "reference solver failed its own witness check [history: %s]", S.desc.s);
		int wf = ref_wellformed (S.M);
		{ char nm[64]; snprintf (nm, sizeof nm, "final_truth_%s", truth_name (T->status)); stat_dyn (nm, ""); }
		if (is_solve (lt.op)) {
			SolveObs *o = S.last;
			obs_transcript (o);
			const char *en = S.last_entry == ENTRY_EXACT ? "exact" : S.last_entry == ENTRY_PRIMAL ? "primal" : "dual";
			{ char nm[64]; snprintf (nm, sizeof nm, "status_%s_%s", en, o->rval ? "ERR" : status_name (o->status)); stat_dyn (nm, ""); }
			STAT ("solves_checked");
			if (wf && T->status != TRUTH_UNKNOWN) {
				int want = T->status == TRUTH_OPTIMAL ? QS_LP_OPTIMAL : T->status == TRUTH_INFEASIBLE ? QS_LP_INFEASIBLE : QS_LP_UNBOUNDED;
				if (o->rval || o->status != want) {
					char sig[96];
					if (S.last_entry == ENTRY_DUAL && want == QS_LP_UNBOUNDED && !o->rval && (o->status == QS_LP_INFEASIBLE || o->status == QS_LP_UNSOLVED))
						snprintf (sig, sizeof sig, "dual-on-unbounded-%s", status_name (o->status));
					else snprintf (sig, sizeof sig, "%s-truth-%s-got-%s", en, status_name (want), o->rval ? "ERR" : status_name (o->status));
					viol ("C05", sig, "after this history a fresh copy of the LP is %s but %s returned rval=%d status=%s [history: %s]", status_name (want), en, o->rval, status_name (o->status), S.desc.s);
				} else if (want == QS_LP_OPTIMAL && !mpq_equal (o->objval, T->val)) {
					char *a = q_str (o->objval), *b = q_str (T->val);
					viol ("C05", "value-differs", "re-solve gives %s but a fresh copy of the LP has optimum %s [history: %s]", a, b, S.desc.s);
					free (a); free (b);
				}
			}
			if (!o->rval && o->status == QS_LP_OPTIMAL) {
				RefLP *R = qsx_readback (S.p, why, sizeof why);
				if (R) {
					if (qsx_check_optimal (R, o, S.last_entry == ENTRY_EXACT, why, sizeof why))
						viol ("C01", wf ? "hist-optimal-cert" : "hist-optimal-crossed-bounds", "OPTIMAL without exact certificate after a history (%s) [history: %s]", why, S.desc.s);
					ref_free (R);
				}
			}
			if (!o->rval && o->status == QS_LP_INFEASIBLE && S.last_entry == ENTRY_EXACT) {
				SF *F = sf_from_ref (S.M); int sg;
				if (ofarkas_check (F, o->y, &sg, why, sizeof why)) viol ("C02", "hist-farkas-invalid", "INFEASIBLE after a history but multipliers prove nothing (%s) [history: %s]", why, S.desc.s);
				sf_free (F);
			}
		} else if (S.edited_since_solve || is_neutral (lt.op)) {
			/* between an edit and the next solve */
			if (check_accessors_after_edit (&S, T, why, sizeof why)) {
				char sig[96]; snprintf (sig, sizeof sig, "stale:%s", opdefs[lt.op].name);
				viol ("C05", sig, "%s [history: %s]", why, S.desc.s);
			}
		}
		/* C14b: writing the current basis must not consume it */
		if (lt.op == OP_WRITE_BASIS || lt.op == OP_WRITE_READ_LOAD_BASIS) {
			QSbasis *B = mpq_QSget_basis (S.p);
			if (!B || B->nstruct != S.M->n || B->nrows != S.M->m) viol ("C14", "write-basis-consumes", "after mpq_QSwrite_basis(p, NULL, f) the problem's basis is %s [history: %s]", B ? "of the wrong size" : "gone", S.desc.s);
			if (B) mpq_QSfree_basis (B);
		}
		/* a failing call must have reported through the handler; here every call succeeded */
		(void) logs_before_last;
		if (sample_wanted ()) sample ("%s => truth %s", S.desc.s, truth_name (T->status));
		if (g_verbose) { vlog ("history: %s\nmodel: ", S.desc.s); SBuf b; sb_init (&b); ref_dump (&b, S.M, 1); vlog ("%s\ntruth=%s\n", b.s, truth_name (T->status)); sb_free (&b); }
		tr_str (S.desc.s);
		{ SBuf b; sb_init (&b); ref_dump (&b, S.M, 1); tr_str (b.s); sb_free (&b); }
		truth_free (T);
	}
	if (S.last) obs_free (S.last);
	if (S.p) mpq_QSfree_prob (S.p);
	ref_free (S.M);
	unlink ("h.bas"); unlink ("h.lp"); unlink ("h.mps");
	qsx_stop ();
	long capn = cap_end (capbuf, sizeof capbuf);
	if (capn) viol ("C20", "hist-writes-stdio", "%ld bytes reached stdout/stderr with a log handler installed (\"%.120s\") [history: %s]", capn, capbuf, S.desc.s);
	if (mem_tracking ()) {
		size_t mem1 = mem_now ();
		STAT ("mem_balance_checked");
		if (mem1 != mem0 && !stop) viol ("C18", "hist-leak", "%ld bytes remain allocated after every object was freed and QSexactClear() [history: %s]", (long) mem1 - (long) mem0, S.desc.s);
	}
	sb_free (&S.desc);
}

Family fam_hist = { "hist", "API-call histories vs reference model (C05 C06, oracles for C14 C17 C18 C20); --opt depth=N --opt reduced=0|1", hist_init, hist_count, hist_run, NULL, 60 };

/* =====================================================================
 * E-HIST / invalid-call alphabet (C07): from every lifecycle state reached
 * by a valid prefix, issue one invalid call; it must be rejected, must not
 * touch memory it does not own, and must leave everything observable as it was.
 * ===================================================================== */
#include <limits.h>
static void observe_state (HState * S, SBuf * b)
{
	mpq_QSprob p = S->p; RefLP *M = S->M;
	int n = mpq_QSget_colcount (p), m = mpq_QSget_rowcount (p);
	char why[300];
	if (qsx_conform (p, M, 1, why, sizeof why)) sb_printf (b, "NONCONFORM(%s)|", why); else sb_printf (b, "conform|");
	QSbasis *B = mpq_QSget_basis (p);
	if (!B) sb_printf (b, "nobasis|");
	else { sb_printf (b, "basis %d %d ", B->nstruct, B->nrows); for (int j = 0; j < B->nstruct; j++) sb_printf (b, "%c", B->cstat[j]); sb_printf (b, "/"); for (int i = 0; i < B->nrows; i++) sb_printf (b, "%c", B->rstat[i]); sb_printf (b, "|"); mpq_QSfree_basis (B); }
	int st = -1, rv = mpq_QSget_status (p, &st);
	sb_printf (b, "status %d %d|", rv, st);
	mpq_t v; mpq_init (v);
	rv = mpq_QSget_objval (p, &v); sb_printf (b, "objval %d ", rv); if (!rv) sb_mpq (b, v); sb_printf (b, "|");
	mpq_clear (v);
	mpq_t *x = mpq_arr_new (n + 1), *pi = mpq_arr_new (m + 1), *rc = mpq_arr_new (n + 1), *sl = mpq_arr_new (m + 1);
	rv = mpq_QSget_x_array (p, x); sb_printf (b, "x %d ", rv); if (!rv) for (int j = 0; j < n; j++) { sb_mpq (b, x[j]); sb_printf (b, " "); } sb_printf (b, "|");
	rv = mpq_QSget_pi_array (p, pi); sb_printf (b, "pi %d ", rv); if (!rv) for (int i = 0; i < m; i++) { sb_mpq (b, pi[i]); sb_printf (b, " "); } sb_printf (b, "|");
	rv = mpq_QSget_rc_array (p, rc); sb_printf (b, "rc %d ", rv); if (!rv) for (int j = 0; j < n; j++) { sb_mpq (b, rc[j]); sb_printf (b, " "); } sb_printf (b, "|");
	rv = mpq_QSget_slack_array (p, sl); sb_printf (b, "slack %d ", rv); if (!rv) for (int i = 0; i < m; i++) { sb_mpq (b, sl[i]); sb_printf (b, " "); } sb_printf (b, "|");
	mpq_arr_free (x, n + 1); mpq_arr_free (pi, m + 1); mpq_arr_free (rc, n + 1); mpq_arr_free (sl, m + 1);
	static const int params[5] = { QS_PARAM_PRIMAL_PRICING, QS_PARAM_DUAL_PRICING, QS_PARAM_SIMPLEX_DISPLAY, QS_PARAM_SIMPLEX_MAX_ITERATIONS, QS_PARAM_SIMPLEX_SCALING };
	for (int k = 0; k < 5; k++) { int val = -1; rv = mpq_QSget_param (p, params[k], &val); sb_printf (b, "param%d %d %d|", params[k], rv, val); }
}

enum {
	IV_DELETE_ROW, IV_DELETE_ROWS, IV_CHANGE_SENSE_IDX, IV_CHANGE_SENSES_IDX, IV_CHANGE_RHS, IV_CHANGE_RANGE_IDX, IV_CHANGE_COEF_ROW, IV_GET_COEF_ROW,
	IV_GET_ROWS_LIST, IV_GET_RANGED_ROWS_LIST, IV_BINV_ROW, IV_TABLEAU_ROW, IV_PIVOTIN_ROW,
	IV_DELETE_COL, IV_DELETE_COLS, IV_CHANGE_OBJ, IV_CHANGE_BOUND_IDX, IV_CHANGE_BOUNDS_IDX, IV_GET_BOUND_IDX, IV_GET_BOUNDS_LIST, IV_GET_OBJ_LIST,
	IV_GET_COLUMNS_LIST, IV_CHANGE_COEF_COL, IV_GET_COEF_COL, IV_ADD_ROW_BADCOL, IV_ADD_ROWS_BADCOL, IV_ADD_RANGED_ROW_BADCOL, IV_ADD_COL_BADROW, IV_ADD_COLS_BADROW, IV_PIVOTIN_COL,
	IV_NAMES, IV_SELECTORS, IV_PARAMS, IV_BASIS, IV_FILES,
	IV__COUNT
};
static const char *ivname[IV__COUNT] = {
	"delete_row", "delete_rows", "change_sense(idx)", "change_senses(idx)", "change_rhscoef", "change_range(idx)", "change_coef(row)", "get_coef(row)",
	"get_rows_list", "get_ranged_rows_list", "get_binv_row", "get_tableau_row", "opt_pivotin_row",
	"delete_col", "delete_cols", "change_objcoef", "change_bound(idx)", "change_bounds(idx)", "get_bound(idx)", "get_bounds_list", "get_obj_list",
	"get_columns_list", "change_coef(col)", "get_coef(col)", "add_row(bad col)", "add_rows(bad col)", "add_ranged_row(bad col)", "add_col(bad row)", "add_cols(bad row)", "opt_pivotin_col",
	"names", "selectors", "params", "basis", "files"
};
/* number of variants per class */
#define NROWBAD 5
#define NCOLBAD 6
#define NLISTBAD 6
static int iv_nvar (int id)
{
	switch (id) {
	case IV_DELETE_ROW: case IV_CHANGE_SENSE_IDX: case IV_CHANGE_RHS: case IV_CHANGE_RANGE_IDX: case IV_CHANGE_COEF_ROW: case IV_GET_COEF_ROW: case IV_BINV_ROW: case IV_TABLEAU_ROW: return NROWBAD;
	case IV_DELETE_ROWS: case IV_CHANGE_SENSES_IDX: case IV_GET_ROWS_LIST: case IV_GET_RANGED_ROWS_LIST: case IV_PIVOTIN_ROW: return NLISTBAD;
	case IV_DELETE_COL: case IV_CHANGE_OBJ: case IV_CHANGE_BOUND_IDX: case IV_GET_BOUND_IDX: case IV_CHANGE_COEF_COL: case IV_GET_COEF_COL: case IV_ADD_ROW_BADCOL: case IV_ADD_RANGED_ROW_BADCOL: return NCOLBAD;
	case IV_ADD_COL_BADROW: return NROWBAD;
	case IV_DELETE_COLS: case IV_CHANGE_BOUNDS_IDX: case IV_GET_BOUNDS_LIST: case IV_GET_OBJ_LIST: case IV_GET_COLUMNS_LIST: case IV_ADD_ROWS_BADCOL: case IV_ADD_COLS_BADROW: case IV_PIVOTIN_COL: return NLISTBAD;
	case IV_NAMES: return 24;
	case IV_SELECTORS: return 12;
	case IV_PARAMS: return 13;
	case IV_BASIS: return 14 + 9;
	case IV_FILES: return 6;
	}
	return 0;
}
static int bad_row (int v, int n, int m) { switch (v) { case 0: return -1; case 1: return m; case 2: return m + 1; case 3: return n + m; default: return INT_MAX; } }
static int bad_col (int v, int n, int m) { switch (v) { case 0: return -1; case 1: return n; case 2: return n + 1; case 3: return n + m - 1; case 4: return n + m; default: return INT_MAX; } }
/* list variants: (position first/last) x (value -1, count, INT_MAX) */
static void bad_list (int v, int count, int *list, int *len)
{
	int bad = (v % 3 == 0) ? -1 : (v % 3 == 1) ? count : INT_MAX;
	if (count >= 1) { *len = 2; if (v / 3 == 0) { list[0] = bad; list[1] = 0; } else { list[0] = count - 1; list[1] = bad; } }
	else { *len = 1; list[0] = bad; }
}
static void free_strs (char **s, int k) { if (!s) return; for (int i = 0; i < k; i++) if (s[i]) mpq_QSfree (s[i]); mpq_QSfree (s); }

/* returns library rv (0 = accepted = violation); *skip = 1 if the variant does not denote an invalid call in this state;
 * *lookup = 1 when the call is a pure look-up that may answer "index -1" instead of failing */
static int do_invalid (HState * S, int id, int v, int *skip, int *lookup, char *what, size_t wl)
{
	mpq_QSprob p = S->p; RefLP *M = S->M;
	int n = M->n, m = M->m, rv = 0, len = 0, list[4] = { 0, 0, 0, 0 }, ind[8] = { 0, 0, 0, 0, 0, 0, 0, 0 }, k;
	mpq_t a, b, c; mpq_init (a); mpq_init (b); mpq_init (c); mpq_set_si (a, 1, 1); mpq_set_si (b, 0, 1); mpq_set (c, mpq_ILL_MAXDOUBLE);
	mpq_t val[8]; for (int i = 0; i < 8; i++) { mpq_init (val[i]); mpq_set_si (val[i], 1, 1); }
	mpq_t *out = mpq_arr_new (n + m + 4), *out2 = mpq_arr_new (n + m + 4);
	*skip = 0; *lookup = 0;
	int r = bad_row (v, n, m), j = bad_col (v, n, m);
	snprintf (what, wl, "%s variant %d", ivname[id], v);
	switch (id) {
	case IV_DELETE_ROW: snprintf (what, wl, "mpq_QSdelete_row(p,%d) with %d rows", r, m); rv = mpq_QSdelete_row (p, r); break;
	case IV_DELETE_ROWS: bad_list (v, m, list, &len); snprintf (what, wl, "mpq_QSdelete_rows(p,%d,{%d,%d}) with %d rows", len, list[0], len > 1 ? list[1] : 0, m); rv = mpq_QSdelete_rows (p, len, list); break;
	case IV_CHANGE_SENSE_IDX: snprintf (what, wl, "mpq_QSchange_sense(p,%d,'L') with %d rows", r, m); rv = mpq_QSchange_sense (p, r, 'L'); break;
	case IV_CHANGE_SENSES_IDX: { char ss[2] = { 'G', 'L' }; bad_list (v, m, list, &len); snprintf (what, wl, "mpq_QSchange_senses(p,%d,{%d,%d},..) with %d rows", len, list[0], len > 1 ? list[1] : 0, m); rv = mpq_QSchange_senses (p, len, list, ss); break; }
	case IV_CHANGE_RHS: snprintf (what, wl, "mpq_QSchange_rhscoef(p,%d,1) with %d rows", r, m); rv = mpq_QSchange_rhscoef (p, r, a); break;
	case IV_CHANGE_RANGE_IDX: snprintf (what, wl, "mpq_QSchange_range(p,%d,1) with %d rows", r, m); rv = mpq_QSchange_range (p, r, a); break;
	case IV_CHANGE_COEF_ROW: if (!n) { *skip = 1; break; } snprintf (what, wl, "mpq_QSchange_coef(p,%d,0,1) with %d rows", r, m); rv = mpq_QSchange_coef (p, r, 0, a); break;
	case IV_GET_COEF_ROW: if (!n) { *skip = 1; break; } snprintf (what, wl, "mpq_QSget_coef(p,%d,0,&v) with %d rows", r, m); rv = mpq_QSget_coef (p, r, 0, &out[0]); break;
	case IV_GET_ROWS_LIST: case IV_GET_RANGED_ROWS_LIST: {
		int *rc_ = 0, *rb = 0, *ri = 0; mpq_t *rvv = 0, *rh = 0, *rg = 0; char *se = 0, **na = 0;
		bad_list (v, m, list, &len);
		snprintf (what, wl, "mpq_QSget_%srows_list(p,%d,{%d,%d},..) with %d rows", id == IV_GET_ROWS_LIST ? "" : "ranged_", len, list[0], len > 1 ? list[1] : 0, m);
		if (id == IV_GET_ROWS_LIST) rv = mpq_QSget_rows_list (p, len, list, &rc_, &rb, &ri, &rvv, &rh, &se, &na);
		else rv = mpq_QSget_ranged_rows_list (p, len, list, &rc_, &rb, &ri, &rvv, &rh, &se, &rg, &na);
		if (rc_) mpq_QSfree (rc_); if (rb) mpq_QSfree (rb); if (ri) mpq_QSfree (ri); if (se) mpq_QSfree (se);
		mpq_EGlpNumFreeArray (rvv); mpq_EGlpNumFreeArray (rh); mpq_EGlpNumFreeArray (rg); free_strs (na, len);
		break;
	}
	case IV_BINV_ROW: snprintf (what, wl, "mpq_QSget_binv_row(p,%d,..) with %d rows", r, m); rv = mpq_QSget_binv_row (p, r, out); break;
	case IV_TABLEAU_ROW: snprintf (what, wl, "mpq_QSget_tableau_row(p,%d,..) with %d rows", r, m); rv = mpq_QSget_tableau_row (p, r, out); break;
	case IV_PIVOTIN_ROW: bad_list (v, m, list, &len); snprintf (what, wl, "mpq_QSopt_pivotin_row(p,%d,{%d,%d}) with %d rows", len, list[0], len > 1 ? list[1] : 0, m); rv = mpq_QSopt_pivotin_row (p, len, list); break;
	case IV_DELETE_COL: if (v == 3 && m == 0) { *skip = 1; break; } snprintf (what, wl, "mpq_QSdelete_col(p,%d) with %d columns, %d rows", j, n, m); rv = mpq_QSdelete_col (p, j); break;
	case IV_DELETE_COLS: bad_list (v, n, list, &len); snprintf (what, wl, "mpq_QSdelete_cols(p,%d,{%d,%d}) with %d columns", len, list[0], len > 1 ? list[1] : 0, n); rv = mpq_QSdelete_cols (p, len, list); break;
	case IV_CHANGE_OBJ: if (v == 3 && m == 0) { *skip = 1; break; } snprintf (what, wl, "mpq_QSchange_objcoef(p,%d,1) with %d columns, %d rows", j, n, m); rv = mpq_QSchange_objcoef (p, j, a); break;
	case IV_CHANGE_BOUND_IDX: if (v == 3 && m == 0) { *skip = 1; break; } snprintf (what, wl, "mpq_QSchange_bound(p,%d,'U',1) with %d columns, %d rows", j, n, m); rv = mpq_QSchange_bound (p, j, 'U', a); break;
	case IV_CHANGE_BOUNDS_IDX: { char lu[2] = { 'U', 'L' }; bad_list (v, n, list, &len); snprintf (what, wl, "mpq_QSchange_bounds(p,%d,{%d,%d},..) with %d columns", len, list[0], len > 1 ? list[1] : 0, n); rv = mpq_QSchange_bounds (p, len, list, lu, val); break; }
	case IV_GET_BOUND_IDX: if (v == 3 && m == 0) { *skip = 1; break; } snprintf (what, wl, "mpq_QSget_bound(p,%d,'L',&v) with %d columns, %d rows", j, n, m); rv = mpq_QSget_bound (p, j, 'L', &out[0]); break;
	case IV_GET_BOUNDS_LIST: bad_list (v, n, list, &len); snprintf (what, wl, "mpq_QSget_bounds_list(p,%d,{%d,%d},..) with %d columns", len, list[0], len > 1 ? list[1] : 0, n); rv = mpq_QSget_bounds_list (p, len, list, out, out2); break;
	case IV_GET_OBJ_LIST: bad_list (v, n, list, &len); snprintf (what, wl, "mpq_QSget_obj_list(p,%d,{%d,%d},..) with %d columns", len, list[0], len > 1 ? list[1] : 0, n); rv = mpq_QSget_obj_list (p, len, list, out); break;
	case IV_GET_COLUMNS_LIST: {
		int *cc = 0, *cb = 0, *ci = 0; mpq_t *cv = 0, *ob = 0, *lo = 0, *up = 0; char **na = 0;
		bad_list (v, n, list, &len);
		snprintf (what, wl, "mpq_QSget_columns_list(p,%d,{%d,%d},..) with %d columns", len, list[0], len > 1 ? list[1] : 0, n);
		rv = mpq_QSget_columns_list (p, len, list, &cc, &cb, &ci, &cv, &ob, &lo, &up, &na);
		if (cc) mpq_QSfree (cc); if (cb) mpq_QSfree (cb); if (ci) mpq_QSfree (ci);
		mpq_EGlpNumFreeArray (cv); mpq_EGlpNumFreeArray (ob); mpq_EGlpNumFreeArray (lo); mpq_EGlpNumFreeArray (up); free_strs (na, len);
		break;
	}
	case IV_CHANGE_COEF_COL: if (!m || (v == 3 && m == 0)) { *skip = 1; break; } snprintf (what, wl, "mpq_QSchange_coef(p,0,%d,1) with %d columns, %d rows", j, n, m); rv = mpq_QSchange_coef (p, 0, j, a); break;
	case IV_GET_COEF_COL: if (!m) { *skip = 1; break; } snprintf (what, wl, "mpq_QSget_coef(p,0,%d,&v) with %d columns, %d rows", j, n, m); rv = mpq_QSget_coef (p, 0, j, &out[0]); break;
	case IV_ADD_ROW_BADCOL: case IV_ADD_RANGED_ROW_BADCOL: {
		if (v == 3 && m == 0) { *skip = 1; break; }
		k = 0; if (n) ind[k++] = 0; ind[k++] = j;
		snprintf (what, wl, "mpq_QSadd_%srow(p,%d,{..,%d},..) with %d columns, %d rows", id == IV_ADD_ROW_BADCOL ? "" : "ranged_", k, j, n, m);
		if (id == IV_ADD_ROW_BADCOL) rv = mpq_QSadd_row (p, k, ind, val, &a, 'L', "badrow");
		else rv = mpq_QSadd_ranged_row (p, k, ind, val, &a, 'R', &a, "badrow");
		break;
	}
	case IV_ADD_ROWS_BADCOL: {
		int cnt[2] = { 1, 1 }, beg[2] = { 0, 1 }; char ss[2] = { 'L', 'G' }; const char *names[2] = { "badr1", "badr2" };
		int bad = (v % 3 == 0) ? -1 : (v % 3 == 1) ? n : INT_MAX;
		if (!n) { cnt[0] = 0; beg[1] = 0; ind[0] = bad; } else if (v / 3 == 0) { ind[0] = bad; ind[1] = 0; } else { ind[0] = 0; ind[1] = bad; }
		snprintf (what, wl, "mpq_QSadd_rows(p,2,..{%d,%d}..) with %d columns", ind[0], ind[1], n);
		rv = mpq_QSadd_rows (p, 2, cnt, beg, ind, val, val, ss, names);
		break;
	}
	case IV_ADD_COL_BADROW: {
		k = 0; if (m) ind[k++] = 0; ind[k++] = r;
		snprintf (what, wl, "mpq_QSadd_col(p,%d,{..,%d},..) with %d rows", k, r, m);
		rv = mpq_QSadd_col (p, k, ind, val, a, b, c, "badcol");
		break;
	}
	case IV_ADD_COLS_BADROW: {
		int cnt[2] = { 1, 1 }, beg[2] = { 0, 1 }; const char *names[2] = { "badc1", "badc2" };
		int bad = (v % 3 == 0) ? -1 : (v % 3 == 1) ? m : INT_MAX;
		mpq_t lo2[2], up2[2]; for (int i = 0; i < 2; i++) { mpq_init (lo2[i]); mpq_init (up2[i]); mpq_set_si (up2[i], 5, 1); }
		if (!m) { cnt[0] = 0; beg[1] = 0; ind[0] = bad; } else if (v / 3 == 0) { ind[0] = bad; ind[1] = 0; } else { ind[0] = 0; ind[1] = bad; }
		snprintf (what, wl, "mpq_QSadd_cols(p,2,..{%d,%d}..) with %d rows", ind[0], ind[1], m);
		rv = mpq_QSadd_cols (p, 2, cnt, beg, ind, val, val, lo2, up2, names);
		for (int i = 0; i < 2; i++) { mpq_clear (lo2[i]); mpq_clear (up2[i]); }
		break;
	}
	case IV_PIVOTIN_COL: bad_list (v, n, list, &len); snprintf (what, wl, "mpq_QSopt_pivotin_col(p,%d,{%d,%d}) with %d columns", len, list[0], len > 1 ? list[1] : 0, n); rv = mpq_QSopt_pivotin_col (p, len, list); break;
	case IV_NAMES: {
		const char *cn0 = n ? M->cname[0] : NULL, *rn0 = m ? M->rname[0] : NULL;
		const char *l2[2];
		int idx = 0;
		switch (v) {
		case 0: snprintf (what, wl, "mpq_QSdelete_named_row(p,\"nosuch\")"); rv = mpq_QSdelete_named_row (p, "nosuch"); break;
		case 1: if (!rn0) { *skip = 1; break; } l2[0] = rn0; l2[1] = "nosuch"; snprintf (what, wl, "mpq_QSdelete_named_rows_list(p,2,{\"%s\",\"nosuch\"})", rn0); rv = mpq_QSdelete_named_rows_list (p, 2, l2); break;
		case 2: snprintf (what, wl, "mpq_QSdelete_named_column(p,\"nosuch\")"); rv = mpq_QSdelete_named_column (p, "nosuch"); break;
		case 3: if (!cn0) { *skip = 1; break; } l2[0] = cn0; l2[1] = "nosuch"; snprintf (what, wl, "mpq_QSdelete_named_columns_list(p,2,{\"%s\",\"nosuch\"})", cn0); rv = mpq_QSdelete_named_columns_list (p, 2, l2); break;
		case 4: snprintf (what, wl, "mpq_QSget_named_x(p,\"nosuch\",&v)"); rv = mpq_QSget_named_x (p, "nosuch", &out[0]); break;
		case 5: snprintf (what, wl, "mpq_QSget_named_rc(p,\"nosuch\",&v)"); rv = mpq_QSget_named_rc (p, "nosuch", &out[0]); break;
		case 6: snprintf (what, wl, "mpq_QSget_named_pi(p,\"nosuch\",&v)"); rv = mpq_QSget_named_pi (p, "nosuch", &out[0]); break;
		case 7: snprintf (what, wl, "mpq_QSget_named_slack(p,\"nosuch\",&v)"); rv = mpq_QSget_named_slack (p, "nosuch", &out[0]); break;
		case 8: snprintf (what, wl, "mpq_QSget_row_index(p,\"nosuch\",&i)"); idx = 0; rv = mpq_QSget_row_index (p, "nosuch", &idx); *lookup = 1; if (!rv && idx == -1) rv = -1; break;
		case 9: snprintf (what, wl, "mpq_QSget_column_index(p,\"nosuch\",&i)"); idx = 0; rv = mpq_QSget_column_index (p, "nosuch", &idx); *lookup = 1; if (!rv && idx == -1) rv = -1; break;
		case 10: if (!cn0) { *skip = 1; break; } snprintf (what, wl, "mpq_QSnew_col(p,..,\"%s\") duplicate name", cn0); rv = mpq_QSnew_col (p, a, b, c, cn0); break;
		case 11: if (!cn0) { *skip = 1; break; } k = 0; if (m) ind[k++] = 0; snprintf (what, wl, "mpq_QSadd_col(p,..,\"%s\") duplicate name", cn0); rv = mpq_QSadd_col (p, k, ind, val, a, b, c, cn0); break;
		case 12: if (!rn0) { *skip = 1; break; } snprintf (what, wl, "mpq_QSnew_row(p,1,'L',\"%s\") duplicate name", rn0); rv = mpq_QSnew_row (p, a, 'L', rn0); break;
		case 13: if (!rn0) { *skip = 1; break; } k = 0; if (n) ind[k++] = 0; snprintf (what, wl, "mpq_QSadd_row(p,..,\"%s\") duplicate name", rn0); rv = mpq_QSadd_row (p, k, ind, val, &a, 'L', rn0); break;
		case 14: { int cnt[2] = { 0, 0 }, beg[2] = { 0, 0 }; char ss[2] = { 'L', 'G' }; l2[0] = "twin"; l2[1] = "twin"; snprintf (what, wl, "mpq_QSadd_rows(p,2,..,{\"twin\",\"twin\"}) duplicate within call"); rv = mpq_QSadd_rows (p, 2, cnt, beg, ind, val, val, ss, l2); break; }
		case 15: { if (!rn0) { *skip = 1; break; } int cnt[2] = { 0, 0 }, beg[2] = { 0, 0 }; char ss[2] = { 'L', 'G' }; l2[0] = "fresh1"; l2[1] = rn0; snprintf (what, wl, "mpq_QSadd_rows(p,2,..,{\"fresh1\",\"%s\"}) second name exists", rn0); rv = mpq_QSadd_rows (p, 2, cnt, beg, ind, val, val, ss, l2); break; }
		case 16: { if (!cn0) { *skip = 1; break; } int cnt[2] = { 0, 0 }, beg[2] = { 0, 0 }; l2[0] = "fresh2"; l2[1] = cn0; snprintf (what, wl, "mpq_QSadd_cols(p,2,..,{\"fresh2\",\"%s\"}) second name exists", cn0); rv = mpq_QSadd_cols (p, 2, cnt, beg, ind, val, val, out, out2, l2); break; }
		case 17: snprintf (what, wl, "mpq_QSdelete_named_row(p,NULL)"); rv = mpq_QSdelete_named_row (p, NULL); break;
		case 18: snprintf (what, wl, "mpq_QSdelete_named_column(p,NULL)"); rv = mpq_QSdelete_named_column (p, NULL); break;
		case 19: snprintf (what, wl, "mpq_QSget_named_x(p,NULL,&v)"); rv = mpq_QSget_named_x (p, NULL, &out[0]); break;
		case 20: snprintf (what, wl, "mpq_QSget_row_index(p,NULL,&i)"); idx = 0; rv = mpq_QSget_row_index (p, NULL, &idx); *lookup = 1; if (!rv && idx == -1) rv = -1; break;
		case 22: case 23: {
			/* a duplicate pair behind an unnamed entry of the same batch (columns / rows) */
			int cnt[3] = { 0, 0, 0 }, beg[3] = { 0, 0, 0 }; const char *l3[3] = { NULL, "twin3", "twin3" }; char sn[3] = { 'L', 'L', 'L' };
			if (v == 22) { snprintf (what, wl, "mpq_QSadd_cols(p,3,..,{NULL,\"twin3\",\"twin3\"}) duplicate behind an unnamed entry"); rv = mpq_QSadd_cols (p, 3, cnt, beg, ind, val, val, out, out2, l3); }
			else { snprintf (what, wl, "mpq_QSadd_rows(p,3,..,{NULL,\"twin3\",\"twin3\"}) duplicate behind an unnamed entry"); rv = mpq_QSadd_rows (p, 3, cnt, beg, ind, val, val, sn, l3); }
			break;
		}
		default: { int cnt[2] = { 0, 0 }, beg[2] = { 0, 0 }; l2[0] = "twinc"; l2[1] = "twinc"; snprintf (what, wl, "mpq_QSadd_cols(p,2,..,{\"twinc\",\"twinc\"}) duplicate within call"); rv = mpq_QSadd_cols (p, 2, cnt, beg, ind, val, val, out, out2, l2); break; }
		}
		break;
	}
	case IV_SELECTORS: {
		switch (v) {
		case 0: if (!m) { *skip = 1; break; } snprintf (what, wl, "mpq_QSchange_sense(p,0,'X')"); rv = mpq_QSchange_sense (p, 0, 'X'); break;
		case 1: if (m < 2) { *skip = 1; break; } { char ss[2] = { 'G', 'X' }; list[0] = 0; list[1] = m - 1; snprintf (what, wl, "mpq_QSchange_senses(p,2,{0,%d},{'G','X'})", m - 1); rv = mpq_QSchange_senses (p, 2, list, ss); } break;
		case 2: snprintf (what, wl, "mpq_QSnew_row(p,1,'X',\"selrow\")"); rv = mpq_QSnew_row (p, a, 'X', "selrow"); break;
		case 3: k = 0; if (n) ind[k++] = 0; snprintf (what, wl, "mpq_QSadd_row(p,..,'Q',\"selrow\")"); rv = mpq_QSadd_row (p, k, ind, val, &a, 'Q', "selrow"); break;
		case 4: if (!n) { *skip = 1; break; } snprintf (what, wl, "mpq_QSchange_bound(p,0,'X',1)"); rv = mpq_QSchange_bound (p, 0, 'X', a); break;
		case 5: if (n < 2) { *skip = 1; break; } { char lu[2] = { 'U', 'X' }; list[0] = 0; list[1] = n - 1; snprintf (what, wl, "mpq_QSchange_bounds(p,2,{0,%d},{'U','X'},..)", n - 1); rv = mpq_QSchange_bounds (p, 2, list, lu, val); } break;
		case 6: if (!n) { *skip = 1; break; } snprintf (what, wl, "mpq_QSget_bound(p,0,'X',&v)"); rv = mpq_QSget_bound (p, 0, 'X', &out[0]); break;
		case 7: snprintf (what, wl, "mpq_QSchange_objsense(p,7)"); rv = mpq_QSchange_objsense (p, 7); break;
		case 8: snprintf (what, wl, "mpq_QSchange_objsense(p,0)"); rv = mpq_QSchange_objsense (p, 0); break;
		case 9: { int nonR = -1; for (int i = 0; i < m; i++) if (M->sense[i] != 'R') nonR = i; if (nonR < 0) { *skip = 1; break; } snprintf (what, wl, "mpq_QSchange_range(p,%d,1) on a non-range row", nonR); rv = mpq_QSchange_range (p, nonR, a); break; }
		case 10: { int cnt[1] = { 0 }, beg[1] = { 0 }; char ss[1] = { 'Z' }; const char *nm1[1] = { "selrows" }; snprintf (what, wl, "mpq_QSadd_rows(p,1,..,{'Z'},..)"); rv = mpq_QSadd_rows (p, 1, cnt, beg, ind, val, val, ss, nm1); break; }
		default: { int cnt[1] = { 0 }, beg[1] = { 0 }; char ss[1] = { 'Z' }; const char *nm1[1] = { "selrrows" }; snprintf (what, wl, "mpq_QSadd_ranged_rows(p,1,..,{'Z'},..)"); rv = mpq_QSadd_ranged_rows (p, 1, cnt, beg, ind, val, val, ss, val, nm1); break; }
		}
		break;
	}
	case IV_PARAMS: {
		int iv = 0;
		switch (v) {
		case 0: snprintf (what, wl, "mpq_QSset_param(p,99,1)"); rv = mpq_QSset_param (p, 99, 1); break;
		case 1: snprintf (what, wl, "mpq_QSset_param(p,-1,1)"); rv = mpq_QSset_param (p, -1, 1); break;
		case 2: snprintf (what, wl, "mpq_QSset_param(p,QS_PARAM_PRIMAL_PRICING,99)"); rv = mpq_QSset_param (p, QS_PARAM_PRIMAL_PRICING, 99); break;
		case 3: snprintf (what, wl, "mpq_QSset_param(p,QS_PARAM_PRIMAL_PRICING,QS_PRICE_DSTEEP)"); rv = mpq_QSset_param (p, QS_PARAM_PRIMAL_PRICING, QS_PRICE_DSTEEP); break;
		case 4: snprintf (what, wl, "mpq_QSset_param(p,QS_PARAM_DUAL_PRICING,QS_PRICE_PSTEEP)"); rv = mpq_QSset_param (p, QS_PARAM_DUAL_PRICING, QS_PRICE_PSTEEP); break;
		case 5: snprintf (what, wl, "mpq_QSset_param(p,QS_PARAM_SIMPLEX_DISPLAY,7)"); rv = mpq_QSset_param (p, QS_PARAM_SIMPLEX_DISPLAY, 7); break;
		case 6: snprintf (what, wl, "mpq_QSset_param(p,QS_PARAM_SIMPLEX_DISPLAY,-1)"); rv = mpq_QSset_param (p, QS_PARAM_SIMPLEX_DISPLAY, -1); break;
		case 7: snprintf (what, wl, "mpq_QSset_param(p,QS_PARAM_SIMPLEX_SCALING,2)"); rv = mpq_QSset_param (p, QS_PARAM_SIMPLEX_SCALING, 2); break;
		case 8: snprintf (what, wl, "mpq_QSset_param(p,QS_PARAM_SIMPLEX_MAX_ITERATIONS,0)"); rv = mpq_QSset_param (p, QS_PARAM_SIMPLEX_MAX_ITERATIONS, 0); break;
		case 9: snprintf (what, wl, "mpq_QSset_param(p,QS_PARAM_SIMPLEX_MAX_ITERATIONS,-5)"); rv = mpq_QSset_param (p, QS_PARAM_SIMPLEX_MAX_ITERATIONS, -5); break;
		case 10: snprintf (what, wl, "mpq_QSget_param(p,99,&v)"); rv = mpq_QSget_param (p, 99, &iv); break;
		case 11: snprintf (what, wl, "mpq_QSset_param_EGlpNum(p,99,1)"); rv = mpq_QSset_param_EGlpNum (p, 99, a); break;
		default: snprintf (what, wl, "mpq_QSget_param_EGlpNum(p,99,&v)"); rv = mpq_QSget_param_EGlpNum (p, 99, &out[0]); break;
		}
		break;
	}
	case IV_BASIS: {
		QSbasis B; memset (&B, 0, sizeof B);
		char *cs = malloc ((size_t) n + 3), *rs = malloc ((size_t) m + 3);
		for (int q = 0; q < n + 2; q++) cs[q] = QS_COL_BSTAT_LOWER;
		for (int q = 0; q < m + 2; q++) rs[q] = QS_ROW_BSTAT_BASIC;
		B.nstruct = n; B.nrows = m; B.cstat = cs; B.rstat = rs;
		switch (v) {
		case 0: B.nstruct = n + 1; snprintf (what, wl, "mpq_QSload_basis(p,B) with B->nstruct=%d, problem has %d", n + 1, n); rv = mpq_QSload_basis (p, &B); break;
		case 1: B.nrows = m + 1; snprintf (what, wl, "mpq_QSload_basis(p,B) with B->nrows=%d, problem has %d", m + 1, m); rv = mpq_QSload_basis (p, &B); break;
		case 2: if (!n) { *skip = 1; break; } B.nstruct = n - 1; snprintf (what, wl, "mpq_QSload_basis(p,B) with B->nstruct=%d, problem has %d", n - 1, n); rv = mpq_QSload_basis (p, &B); break;
		case 3: if (!m) { *skip = 1; break; } for (int q = 0; q < m; q++) rs[q] = QS_ROW_BSTAT_LOWER; snprintf (what, wl, "mpq_QSload_basis(p,B) with no basic variable at all (%d rows)", m); rv = mpq_QSload_basis (p, &B); break;
		case 4: if (!n) { *skip = 1; break; } cs[0] = QS_COL_BSTAT_BASIC; snprintf (what, wl, "mpq_QSload_basis(p,B) with %d basic variables for %d rows", m + 1, m); rv = mpq_QSload_basis (p, &B); break;
		case 5: if (!n) { *skip = 1; break; } cs[0] = '7'; snprintf (what, wl, "mpq_QSload_basis(p,B) with column status byte '7'"); rv = mpq_QSload_basis (p, &B); break;
		case 6: if (!m) { *skip = 1; break; } rs[m - 1] = 'x'; snprintf (what, wl, "mpq_QSload_basis(p,B) with row status byte 'x'"); rv = mpq_QSload_basis (p, &B); break;
		case 7: if (!m) { *skip = 1; break; } for (int q = 0; q < m; q++) rs[q] = QS_ROW_BSTAT_LOWER; snprintf (what, wl, "mpq_QSload_basis_array(p,cstat,rstat) with no basic variable at all (%d rows)", m); rv = mpq_QSload_basis_array (p, cs, rs); break;
		case 8: if (!n) { *skip = 1; break; } cs[0] = QS_COL_BSTAT_BASIC; snprintf (what, wl, "mpq_QSload_basis_array(p,cstat,rstat) with %d basic variables for %d rows", m + 1, m); rv = mpq_QSload_basis_array (p, cs, rs); break;
		case 9: if (!n) { *skip = 1; break; } cs[n - 1] = '9'; snprintf (what, wl, "mpq_QSload_basis_array(p,cstat,rstat) with column status byte '9'"); rv = mpq_QSload_basis_array (p, cs, rs); break;
		case 10: if (!n) { *skip = 1; break; } snprintf (what, wl, "mpq_QSload_basis_array(p,NULL,rstat) with %d columns", n); rv = mpq_QSload_basis_array (p, NULL, rs); break;
		case 11: B.nstruct = n + 1; snprintf (what, wl, "mpq_QSwrite_basis(p,B,\"h.bas\") with B->nstruct=%d, problem has %d", n + 1, n); rv = mpq_QSwrite_basis (p, &B, "h.bas"); break;
		case 12: if (!m) { *skip = 1; break; } rs[0] = 'q'; snprintf (what, wl, "mpq_QSwrite_basis(p,B,\"h.bas\") with row status byte 'q'"); rv = mpq_QSwrite_basis (p, &B, "h.bas"); break;
		case 14: case 15: case 16: case 17: case 18: case 19: case 20: case 21: case 22: {
			/* right sizes, right number of basic variables, one status byte just outside what its slot allows:
			 * '3' (free) is a column status only; '4' and '/' are the neighbours of the legal range '0'..'3' / '0'..'2' */
			static const char bytes[3] = { '3', '4', '/' };
			int which = (v - 14) / 3, route = (v - 14) % 3;      /* which: 0 row slot '3', 1 row slot '4', 2 column slot '/' (needs a second column) */
			if (!m || !n || (which == 2 && n < 2)) { *skip = 1; break; }
			if (which < 2) { rs[0] = bytes[which]; cs[0] = QS_COL_BSTAT_BASIC; }      /* row 0 non-basic with the odd byte, column 0 basic instead: m basic variables */
			else cs[1] = bytes[2];                                                      /* a non-basic column with the odd byte: still m basic variables */
			snprintf (what, wl, "%s with %s status byte '%c' and the right number of basic variables", route == 0 ? "mpq_QSload_basis(p,B)" : route == 1 ? "mpq_QSload_basis_array(p,cstat,rstat)" : "mpq_QSwrite_basis(p,B,\"h.bas\")",
				which < 2 ? "row" : "column", bytes[which]);
			rv = route == 0 ? mpq_QSload_basis (p, &B) : route == 1 ? mpq_QSload_basis_array (p, cs, rs) : mpq_QSwrite_basis (p, &B, "h.bas");
			break;
		}
		default: if (!m) { *skip = 1; break; } for (int q = 0; q < m; q++) rs[q] = QS_ROW_BSTAT_UPPER; snprintf (what, wl, "mpq_QSload_basis_and_row_norms_array(p,cstat,rstat,norms) with no basic variable"); rv = mpq_QSload_basis_and_row_norms_array (p, cs, rs, out); break;
		}
		free (cs); free (rs);
		break;
	}
	case IV_FILES: {
		switch (v) {
		case 0: snprintf (what, wl, "mpq_QSread_and_load_basis(p,\"/nonexistent/x.bas\")"); rv = mpq_QSread_and_load_basis (p, "/nonexistent/x.bas"); break;
		case 1: { snprintf (what, wl, "mpq_QSread_basis(p,\"/nonexistent/x.bas\")"); QSbasis *B = mpq_QSread_basis (p, "/nonexistent/x.bas"); rv = B ? 0 : 1; if (B) mpq_QSfree_basis (B); break; }
		case 2: { snprintf (what, wl, "mpq_QSread_prob(\"/nonexistent/x.lp\",\"LP\")"); mpq_QSprob q = mpq_QSread_prob ("/nonexistent/x.lp", "LP"); rv = q ? 0 : 1; if (q) mpq_QSfree_prob (q); break; }
		case 4: snprintf (what, wl, "mpq_QSget_infeas_array(p,NULL)"); rv = mpq_QSget_infeas_array (p, NULL); break;
		case 5: {
			/* a range for a row that is not ranged */
			int r = -1; for (int i = 0; i < m; i++) if (S->M->sense[i] != 'R') { r = i; break; }
			if (r < 0) { *skip = 1; break; }
			mpq_set_ui (a, 3, 1);
			snprintf (what, wl, "mpq_QSchange_range(p,%d,3) on a row of sense %c", r, S->M->sense[r]); rv = mpq_QSchange_range (p, r, a); break;
		}
		default: snprintf (what, wl, "mpq_QSwrite_prob(p,\"/nonexistent/dir/x.lp\",\"LP\")"); rv = mpq_QSwrite_prob (p, "/nonexistent/dir/x.lp", "LP"); break;
		}
		break;
	}
	}
	for (int i = 0; i < 8; i++) mpq_clear (val[i]);
	mpq_clear (a); mpq_clear (b); mpq_clear (c);
	mpq_arr_free (out, n + m + 4); mpq_arr_free (out2, n + m + 4);
	return rv;
}

typedef struct { int id, var; } InvCall;
static InvCall invcalls[600]; static int ninv;
static int inv_prefix_depth;
static void inv_init (void)
{
	build_alphabets ();
	ninv = 0;
	for (int id = 0; id < IV__COUNT; id++) for (int v = 0; v < iv_nvar (id); v++) { invcalls[ninv].id = id; invcalls[ninv++].var = v; }
	inv_prefix_depth = (int) opt_int ("depth", 1);
	o_reduced = (int) opt_int ("reduced", 0);
	alpha = o_reduced ? alpha_red : alpha_full; nalpha = o_reduced ? n_red : n_full;
}
static long inv_count (void) { long c = (long) NSTART * ninv; for (int i = 0; i < inv_prefix_depth; i++) c *= (nalpha + 1); return c; }
static void inv_run (long item)
{
	long r = item;
	InvCall ic = invcalls[r % ninv]; r /= ninv;
	int start = (int) (r % NSTART); r /= NSTART;
	int seq[8], plen = 0;
	for (int i = 0; i < inv_prefix_depth; i++) { seq[i] = (int) (r % (nalpha + 1)); r /= (nalpha + 1); }
	/* digit nalpha = "no op"; canonical form: no-ops only at the end of the prefix */
	for (int i = 0; i < inv_prefix_depth; i++) { if (seq[i] == nalpha) { for (int k = i + 1; k < inv_prefix_depth; k++) if (seq[k] != nalpha) { STAT ("skipped_noncanonical_prefix"); return; } break; } plen++; }
	size_t mem0 = 0; char capbuf[400]; capbuf[0] = 0;
	HState S; memset (&S, 0, sizeof S);
	sb_init (&S.desc); sb_reserve (&S.desc, 4096);
	SBuf before, after; sb_init (&before); sb_init (&after); sb_reserve (&before, 8192); sb_reserve (&after, 8192);
	qsx_log_reset ();
	cap_begin ();
	if (mem_tracking ()) mem0 = mem_now ();
	qsx_start ();
	S.M = make_start (start); S.edited_since_solve = 1;
	sb_printf (&S.desc, "start=%s", start_name[start]);
	S.p = build_start (start, S.M);
	int stop = !S.p;
	char why[700], what[300];
	for (int i = 0; i < plen && !stop; i++) {
		apply_op (&S, alpha[seq[i]]);
		if (S.inapplicable || S.failed_valid) { STAT ("prefix_inapplicable"); stop = 1; }
	}
	if (!stop && qsx_conform (S.p, S.M, 1, why, sizeof why)) { STAT ("prefix_violation_skipped"); stop = 1; }
	if (!stop) {
		observe_state (&S, &before);
		long logs0 = g_log_count;
		int skip = 0, lookup = 0;
		int rv = do_invalid (&S, ic.id, ic.var, &skip, &lookup, what, sizeof what);
		if (skip) { STAT ("invalid_variant_not_applicable"); }
		else {
			STAT ("invalid_calls");
			STAT ("api_transitions");
			stat_dyn ("outcome_", rv ? "rejected" : "ACCEPTED");
			sb_printf (&S.desc, " ; INVALID %s", what);
			if (rv == 0) {
				char sig[96]; snprintf (sig, sizeof sig, "accepted:%s#%d", ivname[ic.id], ic.var);
				viol ("C07", sig, "invalid call returned success: %s [history: %s]", what, S.desc.s);
			} else if (g_log_count == logs0 && !lookup) {
				STAT ("rejected_without_message");
			}
			observe_state (&S, &after);
			if (strcmp (before.s, after.s)) {
				char sig[96]; snprintf (sig, sizeof sig, "mutated:%s#%d", ivname[ic.id], ic.var);
				/* first difference */
				size_t d = 0; while (before.s[d] && before.s[d] == after.s[d]) d++;
				size_t s0 = d > 60 ? d - 60 : 0;
				viol ("C07", sig, "rejected call changed what is observable: before \"...%.140s\" after \"...%.140s\": %s [history: %s]", before.s + s0, after.s + s0, what, S.desc.s);
			} else if (rv) {
				/* still usable: a solve must give the model's answer */
				if (S.M->n > 0) {
					Truth *T = ref_solve (S.M);
					Cfg c; cfg_default (&c);
					SolveObs *o = obs_new (S.M->n, S.M->m);
					qsx_solve (S.p, &c, NULL, o);
					if (ref_wellformed (S.M) && T->status != TRUTH_UNKNOWN) {
						int want = T->status == TRUTH_OPTIMAL ? QS_LP_OPTIMAL : T->status == TRUTH_INFEASIBLE ? QS_LP_INFEASIBLE : QS_LP_UNBOUNDED;
						if (o->rval || o->status != want || (want == QS_LP_OPTIMAL && !mpq_equal (o->objval, T->val))) {
							char sig[96]; snprintf (sig, sizeof sig, "unusable-after:%s#%d", ivname[ic.id], ic.var);
							viol ("C07", sig, "after the rejected call a solve returns rval=%d status=%s, the problem is %s: %s [history: %s]", o->rval, status_name (o->status), truth_name (T->status), what, S.desc.s);
						}
					}
					obs_transcript (o);
					obs_free (o); truth_free (T);
				}
			}
			tr_int (rv); tr_str (after.s);
			if (sample_wanted ()) sample ("%s => rv=%d", S.desc.s, rv);
			if (g_verbose) vlog ("history: %s\nrv=%d\nbefore: %s\nafter:  %s\n", S.desc.s, rv, before.s, after.s);
		}
	}
	if (S.last) obs_free (S.last);
	if (S.p) mpq_QSfree_prob (S.p);
	ref_free (S.M);
	unlink ("h.bas"); unlink ("h.lp"); unlink ("h.mps");
	qsx_stop ();
	long capn = cap_end (capbuf, sizeof capbuf);
	if (capn && !stop) viol ("C20", "invalid-call-writes-stdio", "%ld bytes reached stdout/stderr with a log handler installed (\"%.120s\") [history: %s]", capn, capbuf, S.desc.s);
	if (mem_tracking () && !stop) {
		size_t mem1 = mem_now ();
		STAT ("mem_balance_checked");
		if (mem1 != mem0) viol ("C18", "invalid-call-leak", "%ld bytes remain allocated after a rejected call, freeing everything and QSexactClear() [history: %s]", (long) mem1 - (long) mem0, S.desc.s);
	}
	sb_free (&S.desc); sb_free (&before); sb_free (&after);
}
Family fam_inv = { "inv", "invalid-call alphabet from every lifecycle state (C07; C18/C20 riders); --opt depth=N prefix length --opt reduced=0|1", inv_init, inv_count, inv_run, NULL, 60 };

/* =====================================================================
 * E-HIST with two live objects (C16a): prefix ; mpq_QScopy_prob ; interleaved
 * steps on original and copy.  After the copy both must be observably equal;
 * afterwards a step on one must not change anything observable of the other.
 * ===================================================================== */
static int cp_steps;
static void copy_init (void)
{
	build_alphabets ();
	cp_steps = (int) opt_int ("steps", 2);
	alpha = alpha_red; nalpha = n_red;
}
/* step digits: 0..nalpha-1 = op on original, nalpha..2nalpha-1 = op on copy, 2nalpha = free original, 2nalpha+1 = free copy */
static long copy_count (void) { long c = (long) NSTART * (n_full + 1); for (int i = 0; i < cp_steps; i++) c *= (2 * nalpha + 2); return c; }
static void params_dump (mpq_QSprob p, SBuf * b)
{
	static const int params[5] = { QS_PARAM_PRIMAL_PRICING, QS_PARAM_DUAL_PRICING, QS_PARAM_SIMPLEX_DISPLAY, QS_PARAM_SIMPLEX_MAX_ITERATIONS, QS_PARAM_SIMPLEX_SCALING };
	for (int k = 0; k < 5; k++) { int val = -1, rv = mpq_QSget_param (p, params[k], &val); sb_printf (b, "param%d %d %d|", params[k], rv, val); }
	static const int qparams[2] = { QS_PARAM_OBJULIM, QS_PARAM_OBJLLIM };
	mpq_t v; mpq_init (v);
	for (int k = 0; k < 2; k++) { int rv = mpq_QSget_param_EGlpNum (p, qparams[k], &v); sb_printf (b, "qparam%d %d ", qparams[k], rv); if (!rv) sb_mpq (b, v); sb_printf (b, "|"); }
	mpq_clear (v);
}
static void copy_run (long item)
{
	long r = item;
	int start = (int) (r % NSTART); r /= NSTART;
	int pre = (int) (r % (n_full + 1)); r /= (n_full + 1);
	int steps[8];
	for (int i = 0; i < cp_steps; i++) { steps[i] = (int) (r % (2 * nalpha + 2)); r /= (2 * nalpha + 2); }
	size_t mem0 = 0; char capbuf[400]; capbuf[0] = 0;
	HState S[2]; memset (S, 0, sizeof S);
	sb_init (&S[0].desc); sb_reserve (&S[0].desc, 4096); sb_init (&S[1].desc); sb_reserve (&S[1].desc, 4096);
	SBuf before, after, hist; sb_init (&before); sb_init (&after); sb_init (&hist);
	sb_reserve (&before, 8192); sb_reserve (&after, 8192); sb_reserve (&hist, 4096);
	qsx_log_reset ();
	cap_begin ();
	if (mem_tracking ()) mem0 = mem_now ();
	qsx_start ();
	char why[700];
	S[0].M = make_start (start); S[0].edited_since_solve = 1;
	S[0].p = build_start (start, S[0].M);
	sb_printf (&hist, "start=%s", start_name[start]);
	int stop = !S[0].p;
	if (!stop && pre < n_full) {
		apply_op (&S[0], alpha_full[pre]);
		sb_printf (&hist, "%s", S[0].desc.s);
		if (S[0].inapplicable || S[0].failed_valid || qsx_conform (S[0].p, S[0].M, 1, why, sizeof why)) { STAT ("prefix_inapplicable"); stop = 1; }
	}
	if (!stop) {
		S[1].p = mpq_QScopy_prob (S[0].p, "thecopy");
		STAT ("api_transitions");
		sb_printf (&hist, " ; COPY");
		if (!S[1].p) { viol ("C16", "copy-failed", "mpq_QScopy_prob returned NULL [history: %s]", hist.s); stop = 1; }
		else {
			S[1].M = ref_clone (S[0].M); S[1].edited_since_solve = 1;
			STAT ("copies");
			if (qsx_conform (S[1].p, S[1].M, 1, why, sizeof why)) { viol ("C16", "copy-differs", "the copy is not observably equal to the original: %s [history: %s]", why, hist.s); stop = 1; }
			else {
				before.len = after.len = 0; before.s[0] = after.s[0] = 0;
				params_dump (S[0].p, &before); params_dump (S[1].p, &after);
				if (strcmp (before.s, after.s)) { viol ("C16", "copy-params-differ", "parameters of the copy differ: original \"%s\" copy \"%s\" [history: %s]", before.s, after.s, hist.s); }
				if (qsx_conform (S[0].p, S[0].M, 1, why, sizeof why)) { viol ("C16", "copy-disturbs-original", "copying changed the original: %s [history: %s]", why, hist.s); stop = 1; }
			}
		}
	}
	for (int i = 0; i < cp_steps && !stop; i++) {
		int d = steps[i];
		int who = d >= 2 * nalpha ? d - 2 * nalpha : d / nalpha, other = 1 - who;
		if (!S[who].p) { STAT ("histories_inapplicable"); stop = 1; break; }   /* already freed */
		before.len = 0; before.s[0] = 0;
		if (S[other].p) observe_state (&S[other], &before);
		if (d >= 2 * nalpha) {
			mpq_QSfree_prob (S[who].p); S[who].p = NULL;
			sb_printf (&hist, " ; %s:free", who ? "copy" : "orig");
		} else {
			S[who].desc.len = 0; S[who].desc.s[0] = 0;
			apply_op (&S[who], alpha[d % nalpha]);
			sb_printf (&hist, " ; %s:%s", who ? "copy" : "orig", S[who].desc.s + 3);
			if (S[who].inapplicable) { STAT ("histories_inapplicable"); stop = 1; break; }
			if (S[who].failed_valid) { STAT ("prefix_violation_skipped"); stop = 1; break; }
			if (qsx_conform (S[who].p, S[who].M, 1, why, sizeof why)) { STAT ("prefix_violation_skipped"); stop = 1; break; }
		}
		STAT ("api_transitions");
		if (S[other].p) {
			after.len = 0; after.s[0] = 0;
			observe_state (&S[other], &after);
			if (strcmp (before.s, after.s)) {
				size_t dd = 0; while (before.s[dd] && before.s[dd] == after.s[dd]) dd++;
				size_t s0 = dd > 60 ? dd - 60 : 0;
				viol ("C16", who ? "copy-step-changes-original" : "original-step-changes-copy", "a call on the %s changed what is observed of the %s: before \"...%.140s\" after \"...%.140s\" [history: %s]", who ? "copy" : "original", other ? "copy" : "original", before.s + s0, after.s + s0, hist.s);
				stop = 1;
			}
		}
	}
	if (!stop) {
		STAT ("histories");
		/* both (or the survivor) must still solve to their own model's answer */
		for (int w = 0; w < 2; w++) {
			if (!S[w].p || S[w].M->n == 0) continue;
			Truth *T = ref_solve (S[w].M);
			Cfg c; cfg_default (&c);
			SolveObs *o = obs_new (S[w].M->n, S[w].M->m);
			qsx_solve (S[w].p, &c, NULL, o);
			STAT ("api_transitions");
			if (ref_wellformed (S[w].M) && T->status != TRUTH_UNKNOWN) {
				int want = T->status == TRUTH_OPTIMAL ? QS_LP_OPTIMAL : T->status == TRUTH_INFEASIBLE ? QS_LP_INFEASIBLE : QS_LP_UNBOUNDED;
				if (o->rval || o->status != want || (want == QS_LP_OPTIMAL && !mpq_equal (o->objval, T->val)))
					viol ("C16", w ? "copy-solves-wrong" : "original-solves-wrong", "final solve of the %s returns rval=%d status=%s but its own model is %s [history: %s]", w ? "copy" : "original", o->rval, status_name (o->status), truth_name (T->status), hist.s);
			}
			obs_transcript (o);
			obs_free (o); truth_free (T);
		}
		tr_str (hist.s);
		if (sample_wanted ()) sample ("%s", hist.s);
		if (g_verbose) vlog ("history: %s\n", hist.s);
	}
	for (int w = 0; w < 2; w++) { if (S[w].last) obs_free (S[w].last); if (S[w].p) mpq_QSfree_prob (S[w].p); if (S[w].M) ref_free (S[w].M); }
	unlink ("h.bas"); unlink ("h.lp"); unlink ("h.mps");
	qsx_stop ();
	long capn = cap_end (capbuf, sizeof capbuf);
	if (capn && !stop) viol ("C20", "copy-writes-stdio", "%ld bytes reached stdout/stderr (\"%.120s\") [history: %s]", capn, capbuf, hist.s);
	if (mem_tracking () && !stop) {
		size_t mem1 = mem_now ();
		STAT ("mem_balance_checked");
		if (mem1 != mem0) viol ("C18", "copy-leak", "%ld bytes remain allocated after both problems were freed and QSexactClear() [history: %s]", (long) mem1 - (long) mem0, hist.s);
	}
	sb_free (&S[0].desc); sb_free (&S[1].desc); sb_free (&before); sb_free (&after); sb_free (&hist);
}
Family fam_copy = { "copy", "prefix ; mpq_QScopy_prob ; interleaved steps on original and copy (C16); --opt steps=N", copy_init, copy_count, copy_run, NULL, 60 };

/* ====================================================================== family cpar: a copy solves like its original under every parameter setting
 * item = (start problem, optional one-operation prefix, parameter setting, entry point); the parameter is set on the original,
 * the copy is taken, both are solved cold by the same entry point: return value, status and optimal value must be equal.
 * The getters already agree in family copy; this one shows that what the parameters *do* was copied too (derived fields). */
#define NCPAR 14
static const char *cpar_name[NCPAR] = { "none", "primal_pricing=devex", "dual_pricing=dantzig", "scaling=0", "max_iterations=1", "max_iterations=2",
	"objulim=-1000", "objulim=1000", "objllim=1000", "objllim=-1000", "objulim=0", "objllim=0", "primal_pricing=devex+scaling=0", "dual_pricing=devex+scaling=0" };
static int cpar_apply (mpq_QSprob p, int k)
{
	mpq_t v; int rv = 0;
	switch (k) {
	case 0: return 0;
	case 1: return mpq_QSset_param (p, QS_PARAM_PRIMAL_PRICING, QS_PRICE_PDEVEX);
	case 2: return mpq_QSset_param (p, QS_PARAM_DUAL_PRICING, QS_PRICE_DDANTZIG);
	case 3: return mpq_QSset_param (p, QS_PARAM_SIMPLEX_SCALING, 0);
	case 4: return mpq_QSset_param (p, QS_PARAM_SIMPLEX_MAX_ITERATIONS, 1);
	case 5: return mpq_QSset_param (p, QS_PARAM_SIMPLEX_MAX_ITERATIONS, 2);
	case 12: return mpq_QSset_param (p, QS_PARAM_PRIMAL_PRICING, QS_PRICE_PDEVEX) | mpq_QSset_param (p, QS_PARAM_SIMPLEX_SCALING, 0);
	case 13: return mpq_QSset_param (p, QS_PARAM_DUAL_PRICING, QS_PRICE_DDEVEX) | mpq_QSset_param (p, QS_PARAM_SIMPLEX_SCALING, 0);
	default:
		mpq_init (v);
		mpq_set_si (v, k == 6 || k == 9 ? -1000 : k == 7 || k == 8 ? 1000 : 0, 1);
		rv = mpq_QSset_param_EGlpNum (p, (k == 6 || k == 7 || k == 10) ? QS_PARAM_OBJULIM : QS_PARAM_OBJLLIM, v);
		mpq_clear (v);
		return rv;
	}
}
static void cpar_init (void) { build_alphabets (); }
static long cpar_count (void) { return (long) NSTART * (n_full + 1) * NCPAR * 4 * 2; }
static void cpar_solve (mpq_QSprob p, int entry, int *rv, int *st, mpq_t val)
{
	*st = -1;
	if (entry == 0) *rv = mpq_QSopt_primal (p, st);
	else if (entry == 1) *rv = mpq_QSopt_dual (p, st);
	else *rv = QSexact_solver (p, NULL, NULL, NULL, entry == 2 ? PRIMAL_SIMPLEX : DUAL_SIMPLEX, st);
	mpq_set_ui (val, 0, 1);
	if (!*rv && *st == QS_LP_OPTIMAL && mpq_QSget_objval (p, (mpq_t *) val)) *rv = -99;
}
static void cpar_run (long item)
{
	static const char *ename[4] = { "mpq_QSopt_primal", "mpq_QSopt_dual", "QSexact_solver(PRIMAL)", "QSexact_solver(DUAL)" };
	long r = item;
	int start = (int) (r % NSTART); r /= NSTART;
	int pre = (int) (r % (n_full + 1)); r /= (n_full + 1);
	int par = (int) (r % NCPAR); r /= NCPAR;
	int entry = (int) (r % 4); r /= 4;
	int order = (int) (r % 2);      /* 0: set ; copy ; solve both.  1: set ; solve original ; copy ; solve copy ; free copy ; re-solve original */
	HState S; memset (&S, 0, sizeof S);
	sb_init (&S.desc); sb_reserve (&S.desc, 4096);
	qsx_log_reset ();
	qsx_start ();
	char why[700];
	S.M = make_start (start); S.edited_since_solve = 1;
	S.p = build_start (start, S.M);
	int stop = !S.p;
	if (!stop && pre < n_full) {
		if (is_neutral (alpha_full[pre].op) || alpha_full[pre].op <= OP_SOLVE_DUAL) { STAT ("prefix_inapplicable"); stop = 1; }   /* only edits make new problems */
		else {
			apply_op (&S, alpha_full[pre]);
			if (S.inapplicable || S.failed_valid || qsx_conform (S.p, S.M, 1, why, sizeof why)) { STAT ("prefix_inapplicable"); stop = 1; }
		}
	}
	if (!stop && S.M->n == 0) { STAT ("prefix_inapplicable"); stop = 1; }
	if (!stop) {
		if (cpar_apply (S.p, par)) viol ("C07", "setparam-valid-rejected", "valid parameter %s rejected [start=%s%s]", cpar_name[par], start_name[start], S.desc.s);
		int rv0 = 0, st0 = 0, rv1, st1; mpq_t v0, v1, v2; mpq_init (v0); mpq_init (v1); mpq_init (v2);
		if (order == 1) { cpar_solve (S.p, entry, &rv0, &st0, v0); STAT ("executions"); }
		mpq_QSprob c = mpq_QScopy_prob (S.p, "thecopy");
		STAT ("api_transitions"); STAT ("copies"); STAT ("instances");
		if (par) STAT ("instances_nontrivial");
		if (!c) viol ("C16", "copy-failed", "mpq_QScopy_prob returned NULL [start=%s%s ; %s]", start_name[start], S.desc.s, cpar_name[par]);
		else {
			if (order == 0) { cpar_solve (S.p, entry, &rv0, &st0, v0); STAT ("executions"); }
			cpar_solve (c, entry, &rv1, &st1, v1);
			STAT ("executions");
			{ char nm[64]; snprintf (nm, sizeof nm, "status_%s", rv0 ? "ERR" : status_name (st0)); stat_dyn (nm, ""); }
			tr_int (rv0); tr_int (st0); tr_int (rv1); tr_int (st1); tr_mpq (v0); tr_mpq (v1);
			if (rv0 != rv1 || st0 != st1 || !mpq_equal (v0, v1)) {
				char *a = q_str (v0), *b = q_str (v1);
				viol ("C16", "copy-solves-differently", "%s with %s: original rval=%d status=%s value=%s, copy rval=%d status=%s value=%s [start=%s%s]", ename[entry], cpar_name[par],
					rv0, status_name (st0), a, rv1, status_name (st1), b, start_name[start], S.desc.s);
				free (a); free (b);
			}
			if (sample_wanted ()) sample ("start=%s%s ; set %s ; %s ; %s on both -> %s", start_name[start], S.desc.s, cpar_name[par], order ? "solve ; COPY" : "COPY", ename[entry], rv0 ? "ERR" : status_name (st0));
			mpq_QSfree_prob (c);
			if (order == 1) {
				/* the original must survive its copy: same answer again, from its own (warm) state */
				int rv2, st2; cpar_solve (S.p, entry, &rv2, &st2, v2);
				STAT ("executions");
				tr_int (rv2); tr_int (st2); tr_mpq (v2);
				int definitive = !rv0 && (st0 == QS_LP_OPTIMAL || st0 == QS_LP_INFEASIBLE || st0 == QS_LP_UNBOUNDED);
				if (definitive && entry == 1 && st0 != QS_LP_OPTIMAL) {
					/* known finding (C04/C05): the direct dual simplex on an LP that is really unbounded answers INFEASIBLE or UNSOLVED */
					Truth *T = ref_solve (S.M);
					if (T->status == TRUTH_UNBOUNDED) { definitive = 0; STAT ("skipped_dual_on_unbounded"); }
					truth_free (T);
				}   /* a limit status legitimately moves on when the solve is resumed */
				if (definitive && (rv2 != rv0 || st2 != st0 || !mpq_equal (v0, v2)))
					viol ("C16", "original-differs-after-copy-freed", "%s with %s: original rval=%d status=%s before, rval=%d status=%s after its copy was solved and freed [start=%s%s]", ename[entry], cpar_name[par],
						rv0, status_name (st0), rv2, status_name (st2), start_name[start], S.desc.s);
			}
		}
		mpq_clear (v0); mpq_clear (v1); mpq_clear (v2);
	}
	if (S.last) obs_free (S.last);
	if (S.p) mpq_QSfree_prob (S.p);
	if (S.M) ref_free (S.M);
	unlink ("h.bas"); unlink ("h.lp"); unlink ("h.mps");
	qsx_stop ();
	sb_free (&S.desc);
}
Family fam_cpar = { "cpar", "start ; [edit] ; set parameter ; mpq_QScopy_prob ; same solve on original and copy must agree (C16)", cpar_init, cpar_count, cpar_run, NULL, 60 };

/* =====================================================================
 * C06 growth tier: long ENUMERATED histories that cross the internal growth thresholds
 * (row/column arrays grow in steps of 100, the matrix in steps of 1000 entries):
 * item = (k in {99,100,101,199,200,201}, shape, delete position); build k columns and k rows one call at a
 * time (or fill the matrix entry by entry up to nz in {999,1000,1001,2001}), conform at checkpoints,
 * delete at every interesting position, add again, conform, and finally solve against a fresh copy.
 * ===================================================================== */
static const int GK[6] = { 99, 100, 101, 199, 200, 201 };
static const int GNZ[4] = { 999, 1000, 1001, 2001 };
#define GPOS 8
#define GSHAPES 4   /* 0 rows first then cols (add_col with coefs) ; 1 cols first then rows ; 2 interleaved ; 3 nz fill by change_coef */
static void grow_init (void) { build_alphabets (); }
static long grow_count (void) { return 6L * GSHAPES * GPOS; }
static int gconf (HState * S, const char *stage, SBuf * desc)
{
	char why[600];
	STAT ("checkpoints");
	if (qsx_conform (S->p, S->M, 1, why, sizeof why)) {
		char sig[64]; snprintf (sig, sizeof sig, "grow-nonconform");
		if (strstr (why, "get_nzcount")) snprintf (sig, sizeof sig, "grow-nzcount");
		viol ("C06", sig, "queries disagree with the model at stage '%s': %s [history: %s]", stage, why, desc->s);
		return 1;
	}
	return 0;
}
static void grow_run (long item)
{
	int pi = (int) (item % GPOS), shape = (int) ((item / GPOS) % GSHAPES), ki = (int) (item / (GPOS * GSHAPES));
	int k = GK[ki];
	static const int posv[GPOS] = { 0, 1, 50, 98, 99, 100, -2, -1 };
	HState S; memset (&S, 0, sizeof S);
	sb_init (&S.desc); sb_reserve (&S.desc, 4096);
	SBuf desc; sb_init (&desc);
	size_t mem0 = 0;
	qsx_log_reset ();
	if (mem_tracking ()) mem0 = mem_now ();
	qsx_start ();
	S.M = ref_new (REF_MIN);
	S.p = mpq_QScreate_prob ("grow", QS_MIN);
	mpq_t a, b, c, z; mpq_init (a); mpq_init (b); mpq_init (c); mpq_init (z);
	int ind[40]; mpq_t val[40]; for (int i = 0; i < 40; i++) mpq_init (val[i]);
	char nm[32];
	int bad = 0, rv = 0;
	sb_printf (&desc, "grow k=%d shape=%d delpos=%d", k, shape, posv[pi]);
#define ADDCOL(j, withcoef) do { int kk = 0; if (withcoef) for (int r = (j) % 7; r < S.M->m && kk < 3; r += 1 + (j) % 5) { ind[kk] = r; mpq_set_si (val[kk], 1 + ((j) + r) % 3, 1 + (j) % 2); kk++; } \
		mpq_set_si (a, 1 + (j) % 4, 1); mpq_set_si (b, 0, 1); mpq_set_si (c, 10 + (j) % 3, 1); snprintf (nm, sizeof nm, "v%d", (j)); \
		rv = mpq_QSadd_col (S.p, kk, ind, val, a, b, c, nm); STAT ("api_transitions"); if (rv) { bad = 1; break; } \
		int cj = ref_add_col (S.M, a, b, 0, c, 0, nm); for (int q = 0; q < kk; q++) mpq_set (REF_A (S.M, ind[q], cj), val[q]); } while (0)
#define ADDROW(i, withcoef) do { int kk = 0; if (withcoef) for (int cc = (i) % 5; cc < S.M->n && kk < 3; cc += 1 + (i) % 7) { ind[kk] = cc; mpq_set_si (val[kk], 1 + ((i) + cc) % 2, 1); kk++; } \
		mpq_set_si (a, 50 + (i) % 9, 1); snprintf (nm, sizeof nm, "g%d", (i)); char se = (i) % 11 == 3 ? 'G' : 'L'; if (se == 'G') mpq_set_si (a, 0, 1); \
		rv = mpq_QSadd_row (S.p, kk, ind, val, &a, se, nm); STAT ("api_transitions"); if (rv) { bad = 1; break; } \
		int ri = ref_add_row (S.M, se, a, NULL, nm); for (int q = 0; q < kk; q++) mpq_set (REF_A (S.M, ri, ind[q]), val[q]); } while (0)
	if (shape == 0) { for (int i = 0; i < k && !bad; i++) ADDROW (i, 0); for (int j = 0; j < k && !bad; j++) ADDCOL (j, 1); }
	else if (shape == 1) { for (int j = 0; j < k && !bad; j++) ADDCOL (j, 0); for (int i = 0; i < k && !bad; i++) ADDROW (i, 1); }
	else if (shape == 2) { for (int i = 0; i < k && !bad; i++) { ADDCOL (i, 1); if (bad) break; ADDROW (i, 1); } }
	else {
		/* 40 columns, 60 rows, then fill entry by entry with change_coef up to the nz target */
		int target = GNZ[ki % 4] + (ki >= 4 ? 1 : 0);
		for (int j = 0; j < 40 && !bad; j++) ADDCOL (j, 0);
		for (int i = 0; i < 60 && !bad; i++) ADDROW (i, 0);
		int nz = 0;
		for (int i = 0; i < 60 && nz < target && !bad; i++) for (int j = 0; j < 40 && nz < target; j++) {
			mpq_set_si (a, 1 + (i + j) % 5, 1 + (i * j) % 3);
			rv = mpq_QSchange_coef (S.p, i, j, a); STAT ("api_transitions");
			if (rv) { bad = 1; break; }
			mpq_set (REF_A (S.M, i, j), a); nz++;
			if (nz == 998 || nz == 1000 || nz == 1002 || nz == 2000) if (gconf (&S, "nz threshold", &desc)) { bad = 2; break; }
		}
		sb_printf (&desc, " nztarget=%d", target);
	}
	if (bad == 1) viol ("C06", "grow-valid-call-rejected", "a valid add/change call returned %d [history: %s]", rv, desc.s);
	if (!bad && gconf (&S, "after growth", &desc)) bad = 2;
	if (!bad) {
		int m = S.M->m, n = S.M->n;
		int p = posv[pi] < 0 ? m + posv[pi] : posv[pi]; if (p >= m) p = m - 1;
		int *fl = calloc ((size_t) (m > n ? m : n) + 2, sizeof (int));
		fl[p] = 1;
		rv = mpq_QSdelete_row (S.p, p); STAT ("api_transitions");
		if (rv) { viol ("C06", "grow-valid-call-rejected", "delete_row(%d) returned %d [history: %s]", p, rv, desc.s); bad = 1; }
		else { ref_del_rows (S.M, fl); if (gconf (&S, "after delete_row", &desc)) bad = 2; }
		memset (fl, 0, sizeof (int) * ((size_t) (m > n ? m : n) + 2));
		if (!bad) {
			int q = posv[pi] < 0 ? n + posv[pi] : posv[pi]; if (q >= n) q = n - 1;
			int l3[3] = { q, (q + 7) % n, (q + 51) % n }, cnt = 0, dl[3];
			for (int t = 0; t < 3; t++) if (!fl[l3[t]]) { fl[l3[t]] = 1; dl[cnt++] = l3[t]; }
			rv = mpq_QSdelete_cols (S.p, cnt, dl); STAT ("api_transitions");
			if (rv) { viol ("C06", "grow-valid-call-rejected", "delete_cols returned %d [history: %s]", rv, desc.s); bad = 1; }
			else { ref_del_cols (S.M, fl); if (gconf (&S, "after delete_cols", &desc)) bad = 2; }
		}
		free (fl);
		for (int t = 0; t < 5 && !bad; t++) { ADDROW (1000 + t, 1); if (bad) break; ADDCOL (1000 + t, 1); }
		if (!bad && gconf (&S, "after re-adding", &desc)) bad = 2;
	}
	if (!bad) {
		/* the grown-and-edited object must solve like a freshly loaded copy of the model */
		STAT ("histories"); STAT ("instances_nontrivial");
		int st1 = 0, st2 = 0; mpq_t v1, v2; mpq_init (v1); mpq_init (v2);
		int r1 = QSexact_solver (S.p, NULL, NULL, NULL, DUAL_SIMPLEX, &st1);
		if (!r1 && st1 == QS_LP_OPTIMAL) mpq_QSget_objval (S.p, &v1);
		mpq_QSprob f = qsx_build (S.M, ROUTE_LOAD, 0);
		int r2 = f ? QSexact_solver (f, NULL, NULL, NULL, DUAL_SIMPLEX, &st2) : -1;
		if (f && !r2 && st2 == QS_LP_OPTIMAL) mpq_QSget_objval (f, &v2);
		STAT ("api_transitions");
		tr_int (r1); tr_int (st1); tr_mpq (v1);
		if (r1 != r2 || st1 != st2 || !mpq_equal (v1, v2)) viol ("C05", "grow-solve-differs", "grown object solves to rval=%d status=%s, a fresh copy to rval=%d status=%s [history: %s]", r1, status_name (st1), r2, status_name (st2), desc.s);
		{ char nm2[48]; snprintf (nm2, sizeof nm2, "status_%s", r1 ? "ERR" : status_name (st1)); stat_dyn (nm2, ""); }
		if (f) mpq_QSfree_prob (f);
		mpq_clear (v1); mpq_clear (v2);
		if (sample_wanted ()) sample ("%s -> %d rows %d cols, status %s", desc.s, S.M->m, S.M->n, status_name (st1));
	}
	for (int i = 0; i < 40; i++) mpq_clear (val[i]);
	mpq_clear (a); mpq_clear (b); mpq_clear (c); mpq_clear (z);
	if (S.p) mpq_QSfree_prob (S.p);
	ref_free (S.M);
	qsx_stop ();
	if (mem_tracking () && !bad) { size_t mem1 = mem_now (); STAT ("mem_balance_checked"); if (mem1 != mem0) viol ("C18", "grow-leak", "%ld bytes remain allocated [history: %s]", (long) mem1 - (long) mem0, desc.s); }
	sb_free (&S.desc); sb_free (&desc);
}
Family fam_grow = { "grow", "long enumerated histories across the 100-row/column and 1000-entry growth thresholds (C06)", grow_init, grow_count, grow_run, NULL, 300 };
