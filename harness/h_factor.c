/* E-FACTOR: property C13 "LU-based solves are exact".
 *
 * fam_factor  component level: drives the sparse LU code (factor.c) through its mpq API with
 *             exactly the protocol of basis.c / the simplex (ILLbasis_factor, ILLfct_compute_yz ->
 *             ftran_update, ILLbasis_update -> ILLfactor_update, free + create + factor on request).
 *             item = (matrix, parameter setting).  Matrices: all d x d over a small alphabet (mat=all)
 *             or 12 structured patterns x 3 permutations x nvar value assignments (mat=pat, any d <= 32;
 *             d > 20 reaches the hyper-sparse solve paths).  Inside the item EVERY sequence of column
 *             replacements of length <= upd is executed from scratch and checked at its last step;
 *             chain=N adds one deterministic chain of N non-singular replacements (deep eta files).
 *             Settings: 0 default, 1 etamax=1, 2 minimal space (E_UPDATE_NOSPACE), 3 dense tail at every
 *             size, 4 etamax=2, 5 default with a smaller eta arena (same behaviour, 20x faster).
 * fam_binv    API level: after simplex runs (complete / stopped by iteration limits), and after
 *             pivot-ins: (a) solves with the factorization the call left behind, updates included
 *             (exported ILLbasis_row_solve / column_solve), (b) mpq_QSget_basis_order / binv_row /
 *             tableau_row, (c) exported ILLlib_basis_order / ILLlib_tableau; all multiplied back
 *             against B and [A | logicals] assembled from the LP model.
 *
 * Oracle: plain dense mpq arithmetic (ref.c gauss_solve), no code shared with the library. */
#include <stdlib.h>
#include <string.h>
#include "lpfam.h"

#define MAXD 32
#define MAXUPD 4
#define MAXVIOL_PER_ITEM 6

static uint64_t smix (uint64_t x)
{
	x += 0x9e3779b97f4a7c15ULL; x = (x ^ (x >> 30)) * 0xbf58476d1ce4e5b9ULL; x = (x ^ (x >> 27)) * 0x94d049bb133111ebULL;
	return x ^ (x >> 31);
}

/* ====================================================================== component level */
static int g_d, g_L, g_all, g_na, g_nvar, g_colfull, g_ncolk, g_nset, g_setsel[8];
static long g_nmat;
static mpq_t g_alpha[4], g_pv[4];
static const char *SETNAME[] = { "default", "etamax1", "tinyspace", "densemin0", "etamax2", "smalleta" };
#define NSETS 6
#define NPAT 12
#define NPERM 3
static const char *PATNAME[NPAT] = { "upper", "lower", "bidiag", "arrow", "dense", "singletons", "tridiag", "blocks", "rankdef", "cyclic", "hessenberg", "mixed" };

/* matrices are dense, column major: M[c*d+r] */
#define E(M,r,c) ((M)[(size_t)(c) * g_d + (r)])
static mpq_t *g_M0, *g_M, *g_T, *g_tr, *g_tx, *g_xd, *g_rhs, *g_ent[MAXUPD], g_s, g_t;
static int g_seqpos[MAXUPD], g_seqk[MAXUPD], g_set, g_nviol, g_nchain, g_chain = -1;
static char g_label[96];
static long i_seq, i_acc, i_ref, i_sing;

static void fac_init (void)
{
	static const char *std[] = { "-1", "0", "1", "2" }, *pm[] = { "-1", "0", "1" }, *b01[] = { "0", "1" }, *pv[] = { "1", "-1", "2", "1/3" };
	g_d = (int) opt_int ("dim", 2);
	g_L = (int) opt_int ("upd", 1);
	if (g_d < 1 || g_d > MAXD || g_L < 0 || g_L > MAXUPD) { fprintf (stderr, "factor: dim 1..%d, upd 0..%d\n", MAXD, MAXUPD); exit (2); }
	const char *mat = opt_str ("mat", g_d <= 4 ? "all" : "pat");
	const char *al = opt_str ("alpha", g_d <= 3 ? "std" : "01");
	const char **a = !strcmp (al, "std") ? std : !strcmp (al, "pm") ? pm : b01;
	g_na = a == std ? 4 : a == pm ? 3 : 2;
	g_all = !strcmp (mat, "all");
	g_nvar = (int) opt_int ("nvar", 8);
	g_nchain = (int) opt_int ("chain", 0);   /* additionally one chain of this many non-singular replacements per item */
	if (g_nchain < 0 || g_nchain > 4000) g_nchain = 0;
	qsx_start ();
	for (int i = 0; i < 4; i++) { mpq_init (g_alpha[i]); mpq_init (g_pv[i]); q_set_str (g_pv[i], pv[i]); if (i < g_na) q_set_str (g_alpha[i], a[i]); }
	if (g_all) {
		g_nmat = 1;
		for (int i = 0; i < g_d * g_d; i++) { g_nmat *= g_na; if (g_nmat > (1L << 28)) { fprintf (stderr, "factor: mat=all too large for dim %d\n", g_d); exit (2); } }
	} else g_nmat = (long) NPAT * NPERM * g_nvar;
	const char *cs = opt_str ("cols", "auto");
	g_colfull = !strcmp (cs, "full") || (!strcmp (cs, "auto") && g_d <= 2);
	if (g_colfull) { g_ncolk = 1; for (int i = 0; i < g_d; i++) g_ncolk *= g_na; }
	else g_ncolk = g_d + 6;
	const char *ss = opt_str ("set", "5123");   /* digits: which parameter settings */
	for (const char *p = ss; *p && g_nset < 8; p++) if (*p >= '0' && *p < '0' + NSETS) g_setsel[g_nset++] = *p - '0';
	if (!g_nset) g_setsel[g_nset++] = 0;
	int d = g_d;
	g_M0 = mpq_arr_new (d * d); g_M = mpq_arr_new (d * d); g_T = mpq_arr_new (d * d);
	g_tr = mpq_arr_new (d); g_tx = mpq_arr_new (d); g_xd = mpq_arr_new (d); g_rhs = mpq_arr_new (d);
	for (int i = 0; i < MAXUPD; i++) g_ent[i] = mpq_arr_new (d);
	mpq_init (g_s); mpq_init (g_t);
}
static long fac_count (void) { return g_nmat * g_nset; }
static void fac_finish (void) { qsx_stop (); }

/* ---- item space */
static int pat_has (int pat, int v, int r, int c)
{
	int d = g_d, h = d / 2, bs = (v & 1) ? 3 : 2;
	switch (pat) {
	case 0: return c >= r;
	case 1: return c <= r;
	case 2: return c == r || c == r + 1;
	case 3: return r == c || r == 0 || c == 0;
	case 4: case 8: return 1;
	case 5: return c == (r + v) % d;
	case 6: return abs (r - c) <= 1;
	case 7: return r / bs == c / bs;
	case 9: return c == r || c == (r + 1) % d;
	case 10: return c >= r - 1;
	default: return r == c || (r >= h && c >= h) || (r < h && c >= h && (r + c) % 2 == 0);
	}
}
static void perm_make (int *p, uint64_t seed)
{
	for (int i = 0; i < g_d; i++) p[i] = i;
	for (int i = g_d - 1; i > 0; i--) { int j = (int) (smix (seed * 1315423911u + (uint64_t) i) % (uint64_t) (i + 1)), t = p[i]; p[i] = p[j]; p[j] = t; }
}
static void gen_matrix (long mi, mpq_t * M)
{
	int d = g_d;
	if (g_all) {
		for (int r = 0; r < d; r++) for (int c = 0; c < d; c++) { mpq_set (E (M, r, c), g_alpha[mi % g_na]); mi /= g_na; }
		snprintf (g_label, sizeof g_label, "all/%d", g_na);
		return;
	}
	int pat = (int) (mi % NPAT), pm = (int) (mi / NPAT % NPERM), v = (int) (mi / NPAT / NPERM);
	int pr[MAXD], pc[MAXD];
	for (int i = 0; i < d; i++) { pr[i] = pm == 1 ? d - 1 - i : i; pc[i] = i; }
	if (pm == 2) { perm_make (pr, (uint64_t) v * 64 + (uint64_t) pat); perm_make (pc, (uint64_t) v * 64 + (uint64_t) pat + 32); }
	mpq_t *B = g_T;
	for (int r = 0; r < d; r++) for (int c = 0; c < d; c++) {
		int k = v == 0 ? 0 : v == 1 ? (r + c) % 2 : (int) (smix ((uint64_t) v * 7919u + (uint64_t) (r * d + c) * 104729u + (uint64_t) pat * 13u) % 4);
		if (pat_has (pat, v, r, c)) mpq_set (E (B, r, c), g_pv[k]); else mpq_set_ui (E (B, r, c), 0, 1);
	}
	if (pat == 8 && d >= 2) {           /* last row := sum of the others (singular); odd variants perturb one entry (near-singular) */
		for (int c = 0; c < d; c++) { mpq_set_ui (E (B, d - 1, c), 0, 1); for (int r = 0; r + 1 < d; r++) mpq_add (E (B, d - 1, c), E (B, d - 1, c), E (B, r, c)); }
		if (v & 1) mpq_add (E (B, d - 1, d - 1), E (B, d - 1, d - 1), g_pv[3]);
	}
	for (int r = 0; r < d; r++) for (int c = 0; c < d; c++) mpq_set (E (M, r, c), E (B, pr[r], pc[c]));
	snprintf (g_label, sizeof g_label, "%s/perm%d/var%d", PATNAME[pat], pm, v);
}
/* entering column number k for basis position pos, given the current matrix */
static void gen_column (int k, int pos, mpq_t * M, mpq_t * out)
{
	int d = g_d, nx = (pos + 1) % d;
	if (g_colfull) { for (int r = 0; r < d; r++) { mpq_set (out[r], g_alpha[k % g_na]); k /= g_na; } return; }
	for (int r = 0; r < d; r++) {
		if (k < d) mpq_set_ui (out[r], r == k, 1);                                   /* unit vectors */
		else if (k == d) mpq_set_ui (out[r], 1, 1);                                   /* ones */
		else if (k == d + 1) { mpq_set_si (out[r], (r & 1) ? -(r + 1) : r + 1, 3); mpq_canonicalize (out[r]); }   /* dense, distinct fractions */
		else if (k == d + 2) mpq_set_ui (out[r], 0, 1);                               /* zero column: singular */
		else if (k == d + 3) mpq_set (out[r], E (M, r, nx));                          /* copy of the neighbour: singular if d > 1 */
		else if (k == d + 4) mpq_neg (out[r], E (M, r, pos));                         /* same pattern, never singular */
		else mpq_add (out[r], E (M, r, pos), E (M, r, nx));                           /* leaving + neighbour: never singular */
	}
}
static int is_singular (mpq_t * M)
{
	int d = g_d;
	for (int r = 0; r < d; r++) { for (int c = 0; c < d; c++) mpq_set (g_T[(size_t) r * d + c], E (M, r, c)); mpq_set_ui (g_tr[r], 0, 1); }
	return gauss_solve (g_T, g_tr, d, g_tx);
}
static void describe (SBuf * b, int len)
{
	int d = g_d;
	sb_printf (b, "dim=%d %s set=%s M=[", d, g_label, SETNAME[g_set]);
	for (int r = 0; r < d; r++) { for (int c = 0; c < d; c++) { sb_mpq (b, E (g_M0, r, c)); sb_printf (b, c + 1 < d ? " " : r + 1 < d ? "; " : "]"); } }
	if (g_chain >= 0) sb_printf (b, " | chain=%d: after %d earlier replacements of the deterministic chain of this item", g_nchain, g_chain);
	for (int t = 0; t < len; t++) {
		sb_printf (b, " | upd%d: position %d <- col%d (", g_chain >= 0 ? g_chain + 1 : t + 1, g_seqpos[t], g_seqk[t]);
		for (int r = 0; r < d; r++) { sb_mpq (b, g_ent[t][r]); sb_printf (b, r + 1 < d ? " " : ")"); }
	}
}
static void fviol (int len, const char *sig, const char *what)
{
	if (g_nviol++ >= MAXVIOL_PER_ITEM) { STAT ("violations_suppressed"); return; }
	SBuf b; sb_init (&b); describe (&b, len);
	viol ("C13", sig, "%s: %s", what, b.s);
	sb_free (&b);
}

/* ---- the factorization object, handled like lp->f in basis.c */
typedef struct FW {
	mpq_factor_work *f;
	int created, basis[MAXD], *cbeg, *clen, *cindx, ncol, nnz, depth;
	mpq_t *ccoef;
	mpq_svector upd, x;
} FW;
static int pool_add (FW * w, mpq_t * col)
{
	int j = w->ncol++;
	w->cbeg[j] = w->nnz; w->clen[j] = 0;
	for (int r = 0; r < g_d; r++) if (mpq_sgn (col[r])) { w->cindx[w->nnz] = r; mpq_set (w->ccoef[w->nnz], col[r]); w->nnz++; w->clen[j]++; }
	return j;
}
static void fw_open (FW * w, int set)
{
	int d = g_d, cap = d + MAXUPD + g_nchain;
	mpq_t v; mpq_init (v);
	memset (w, 0, sizeof *w);
	w->f = malloc (sizeof *w->f);
	memset (w->f, 0x5A, sizeof *w->f);      /* basis.c hands ILLfactor_init_factor_work uninitialised malloc memory */
	mpq_init (w->f->fzero_tol); mpq_init (w->f->szero_tol); mpq_init (w->f->partial_tol); mpq_init (w->f->maxelem_orig);
	mpq_init (w->f->maxelem_factor); mpq_init (w->f->maxelem_cur); mpq_init (w->f->partial_cur);
	mpq_ILLfactor_init_factor_work (w->f);
	int rv = 0;
	if (set == 1) rv = mpq_ILLfactor_set_factor_iparam (w->f, QS_FACTOR_ETAMAX, 1);
	if (set == 4) rv = mpq_ILLfactor_set_factor_iparam (w->f, QS_FACTOR_ETAMAX, 2);
	if (set == 2) {                           /* minimal space: exact fit for U and L, room for ONE eta entry (er_space = 1/4 * 4) */
		mpq_set_ui (v, 1, 1);
		rv |= mpq_ILLfactor_set_factor_dparam (w->f, QS_FACTOR_UR_SPACE_MUL, v);
		rv |= mpq_ILLfactor_set_factor_dparam (w->f, QS_FACTOR_UC_SPACE_MUL, v);
		rv |= mpq_ILLfactor_set_factor_dparam (w->f, QS_FACTOR_LC_SPACE_MUL, v);
		mpq_set_ui (v, 1, 4);
		rv |= mpq_ILLfactor_set_factor_dparam (w->f, QS_FACTOR_ER_SPACE_MUL, v);
		rv |= mpq_ILLfactor_set_factor_iparam (w->f, QS_FACTOR_ETAMAX, 4);
	}
	if (set == 3) rv = mpq_ILLfactor_set_factor_iparam (w->f, QS_FACTOR_DENSE_MIN, 0);   /* dense tail used at every size */
	if (set == 3 || set == 5) {               /* the default allocates er_space_mul * etamax = 100000 eta entries per factorization (~1 ms); 200 are
	                                           * never exhausted by <= 4 updates at dim <= 32, so behaviour equals the default, 20x faster */
		mpq_set_ui (v, 2, 1);
		rv |= mpq_ILLfactor_set_factor_dparam (w->f, QS_FACTOR_ER_SPACE_MUL, v);
	}
	if (rv) viol ("C13", "set-param-rejected", "valid factor parameter rejected (setting %s)", SETNAME[set]);
	w->cbeg = calloc ((size_t) cap, sizeof (int)); w->clen = calloc ((size_t) cap, sizeof (int)); w->cindx = calloc ((size_t) cap * d, sizeof (int));
	w->ccoef = mpq_arr_new (cap * d);
	mpq_ILLsvector_init (&w->upd); mpq_ILLsvector_init (&w->x);
	mpq_ILLsvector_alloc (&w->upd, d); mpq_ILLsvector_alloc (&w->x, d);
	mpq_clear (v);
}
/* ILLbasis_factor: free the old work (if any), create, factor */
static int fw_factor (FW * w, int *nsing)
{
	int *singr = 0, *singc = 0, rv;
	*nsing = 0;
	if (w->created) mpq_ILLfactor_free_factor_work (w->f);
	w->created = 0; w->depth = 0;
	rv = mpq_ILLfactor_create_factor_work (w->f, g_d);
	if (rv) return rv;
	w->created = 1;
	rv = mpq_ILLfactor (w->f, w->basis, w->cbeg, w->clen, w->cindx, w->ccoef, nsing, &singr, &singc);
	if (!rv && *nsing > 0) {
		int bad = *nsing > g_d || !singr || !singc;
		for (int i = 0; i < *nsing && !bad; i++) if (singr[i] < 0 || singr[i] >= g_d || singc[i] < 0 || singc[i] >= g_d) bad = 1;
		if (bad) rv = -99;
	}
	free (singr); free (singc);
	return rv;
}
static void fw_close (FW * w)
{
	if (w->created) mpq_ILLfactor_free_factor_work (w->f);
	mpq_clear (w->f->fzero_tol); mpq_clear (w->f->szero_tol); mpq_clear (w->f->partial_tol); mpq_clear (w->f->maxelem_orig);
	mpq_clear (w->f->maxelem_factor); mpq_clear (w->f->maxelem_cur); mpq_clear (w->f->partial_cur);
	free (w->f);
	mpq_ILLsvector_free (&w->upd); mpq_ILLsvector_free (&w->x);
	free (w->cbeg); free (w->clen); free (w->cindx); mpq_arr_free (w->ccoef, (g_d + MAXUPD + g_nchain) * g_d);
}
/* expand a result vector into g_xd; 0 = well formed */
static int expand (const mpq_svector * x)
{
	int d = g_d; char seen[MAXD] = { 0 };
	for (int i = 0; i < d; i++) mpq_set_ui (g_xd[i], 0, 1);
	if (x->nzcnt < 0 || x->nzcnt > d) return 1;
	for (int i = 0; i < x->nzcnt; i++) {
		int j = x->indx[i];
		if (j < 0 || j >= d || seen[j]) return 1;
		seen[j] = 1; mpq_set (g_xd[j], x->coef[i]);
	}
	return 0;
}
/* does M * xd == rhs (trans = 0) or xd^T * M == rhs^T (trans = 1) hold exactly? */
static int mulback_ok (mpq_t * M, mpq_t * rhs, int trans)
{
	int d = g_d;
	for (int i = 0; i < d; i++) {
		mpq_set_ui (g_s, 0, 1);
		for (int j = 0; j < d; j++) {
			mpq_t *m = trans ? &E (M, j, i) : &E (M, i, j);
			if (!mpq_sgn (*m) || !mpq_sgn (g_xd[j])) continue;
			mpq_mul (g_t, *m, g_xd[j]); mpq_add (g_s, g_s, g_t);
		}
		if (!mpq_equal (g_s, rhs[i])) return 0;
	}
	return 1;
}
static void rhs_make (int k)
{
	int d = g_d;
	for (int r = 0; r < d; r++) {
		if (k < d) mpq_set_ui (g_rhs[r], r == k, 1);                                  /* unit vectors (sparse paths when d > 20) */
		else if (k == d) mpq_set_ui (g_rhs[r], 0, 1);                                  /* zero */
		else if (k == d + 1) mpq_set_ui (g_rhs[r], 1, 1);
		else if (k == d + 2) mpq_set_si (g_rhs[r], (r & 1) ? -(r + 2) : r + 1, 1);
		else { mpq_set (g_rhs[r], g_pv[(r * 5 + 3) % 4]); if (r % 3 == 1) mpq_neg (g_rhs[r], g_rhs[r]); }
	}
}
/* all right-hand sides through ftran and btran against the CURRENT matrix M */
static int check_solves (FW * w, mpq_t * M, int len)
{
	int d = g_d, bad = 0, ind[MAXD];
	mpq_t *co = mpq_arr_new (d);
	for (int k = 0; k < d + 4; k++) {
		rhs_make (k);
		mpq_svector a; a.size = d; a.indx = ind; a.coef = co; a.nzcnt = 0;
		for (int r = 0; r < d; r++) if (mpq_sgn (g_rhs[r])) { ind[a.nzcnt] = r; mpq_set (co[a.nzcnt], g_rhs[r]); a.nzcnt++; }
		for (int tr = 0; tr < 2; tr++) {
			if (tr) mpq_ILLfactor_btran (w->f, &a, &w->x); else mpq_ILLfactor_ftran (w->f, &a, &w->x);
			STAT ("solves_checked");
			if (expand (&w->x)) { bad++; fviol (len, tr ? "btran-malformed" : "ftran-malformed", "solve returned a malformed sparse vector (index out of range / duplicate / bad count)"); continue; }
			if (!mulback_ok (M, g_rhs, tr)) {
				char m[160]; snprintf (m, sizeof m, "%s result does not satisfy %s for right-hand side #%d (%s)", tr ? "btran" : "ftran", tr ? "x^T B = a^T" : "B x = a", k, k < d ? "unit vector" : k == d ? "zero" : "dense");
				bad++; fviol (len, tr ? "btran-wrong" : "ftran-wrong", m);
			}
		}
	}
	mpq_arr_free (co, d);
	return bad;
}

enum { R_FINE = 0, R_SINGULAR = 1, R_BROKEN = 2 };
/* one column replacement with the protocol of the simplex (ILLfct_compute_yz, ILLbasis_update); ent = entering column.
 * emit = 0 replays a step that was already checked as the last step of a shorter sequence */
static int do_step (FW * w, int pos, int k, mpq_t * ent, int emit, int len)
{
	int d = g_d, res = R_FINE, refact = 0, need = 0, newsing = 0, nsing = 0, rv;
	int col = pool_add (w, ent);
	mpq_svector a; a.size = w->clen[col]; a.nzcnt = w->clen[col]; a.indx = w->cindx + w->cbeg[col]; a.coef = w->ccoef + w->cbeg[col];
	mpq_ILLfactor_set_factor_dparam (w->f, QS_FACTOR_SZERO_TOL, mpq_PIVZ_TOLER);
	mpq_ILLfactor_ftran_update (w->f, &a, &w->upd, &w->x);
	mpq_ILLfactor_set_factor_dparam (w->f, QS_FACTOR_SZERO_TOL, mpq_SZERO_TOLER);
	if (emit) {
		STAT ("executions"); STAT ("updates_checked");
		if (expand (&w->x)) { fviol (len, "ftran-update-malformed", "ftran_update returned a malformed sparse vector"); return R_BROKEN; }
		if (!mulback_ok (g_M, ent, 0)) { fviol (len, "ftran-update-wrong", "ftran_update result y does not satisfy B y = entering column (B before the replacement)"); return R_BROKEN; }
		newsing = !mpq_sgn (g_xd[pos]);       /* pivot element zero <=> replacement makes the matrix singular */
	}
	if ((pos + k) & 1) {                    /* the simplex calls btran (row of B^-1) and ftran (steepest edge) between ftran_update and update */
		int one = pos; mpq_t e; mpq_init (e); mpq_set_ui (e, 1, 1);
		mpq_svector z; z.size = 1; z.nzcnt = 1; z.indx = &one; z.coef = &e;
		mpq_ILLfactor_btran (w->f, &z, &w->x);
		mpq_ILLfactor_ftran (w->f, &a, &w->x);
		mpq_clear (e);
	}
	rv = mpq_ILLfactor_update (w->f, &w->upd, pos, &refact);
	for (int r = 0; r < d; r++) mpq_set (E (g_M, r, pos), ent[r]);
	w->basis[pos] = col;
	if (emit) {
		tr_int (rv); tr_int (refact);
		if (is_singular (g_M) != newsing) { fviol (len, "HARNESS-oracle-disagrees", "pivot element and Gaussian elimination disagree about singularity"); return R_BROKEN; }
		if (newsing) { STAT ("replacements_singular"); i_sing++; } else STAT ("replacements_nonsingular");
	}
	if (rv == 0 && !refact) {
		w->depth++;
		if (emit) {
			STAT ("update_accepted"); i_acc++;
			stat_max ("max_etacnt", w->f->etacnt); stat_max ("max_updates_since_factor", w->depth);
			if (w->f->etacnt > 0) STAT ("update_with_eta_row");
			if (newsing) { fviol (len, "singular-update-accepted", "ILLfactor_update returned 0 without refactor request although the replacement makes the matrix singular"); return R_BROKEN; }
		}
	} else if (rv == 0) { need = 1; if (emit) STAT ("refactor_request_etamax"); }
	else if (rv == E_UPDATE_NOSPACE) { need = 1; if (emit) STAT ("refactor_request_nospace"); }
	else if (rv == E_FACTOR_BLOWUP) { need = 1; if (emit) STAT ("refactor_request_blowup"); }
	else if (rv == E_UPDATE_SINGULAR_ROW || rv == E_UPDATE_SINGULAR_COL) {
		need = 1;                             /* basis.c treats these like a refactor request; the re-factorization decides */
		if (emit) {
			if (rv == E_UPDATE_SINGULAR_ROW) STAT ("update_says_singular_row"); else STAT ("update_says_singular_col");
			if (newsing) STAT ("singular_reported_at_update"); else STAT ("update_says_singular_but_nonsingular");
		}
	} else {
		if (emit) { char m[96]; snprintf (m, sizeof m, "ILLfactor_update failed with unexpected rval=%d", rv); fviol (len, "update-error", m); }
		return R_BROKEN;
	}
	if (need) {
		if (emit) i_ref++;
		rv = fw_factor (w, &nsing);
		if (emit) { STAT ("refactor_done"); tr_int (rv); tr_int (nsing > 0); }
		if (rv) { if (emit) { char m[96]; snprintf (m, sizeof m, "re-factorization after a refactor request failed with rval=%d", rv); fviol (len, "refactor-error", m); } return R_BROKEN; }
		if (emit && nsing > 0 && !newsing) { fviol (len, "refactor-false-singular", "re-factorization reports singular but the current matrix is non-singular"); return R_BROKEN; }
		if (emit && nsing == 0 && newsing) { fviol (len, "refactor-missed-singular", "re-factorization reports non-singular but the current matrix is singular"); return R_BROKEN; }
		if (nsing > 0) { if (emit) STAT ("singular_reported_at_refactor"); return R_SINGULAR; }
	}
	if (emit && newsing) return R_SINGULAR;
	if (emit && check_solves (w, g_M, len)) res = R_BROKEN;
	return res;
}
/* factor the start matrix; 0 = factored and non-singular (checks and reports only when emit) */
static int do_start (FW * w, int emit)
{
	int d = g_d, nsing = 0, rv;
	for (int i = 0; i < d * d; i++) mpq_set (g_M[i], g_M0[i]);
	for (int c = 0; c < d; c++) w->basis[c] = pool_add (w, &E (g_M, 0, c));
	rv = fw_factor (w, &nsing);
	if (!emit) return rv || nsing ? R_BROKEN : R_FINE;
	int sing = is_singular (g_M);
	STAT ("executions"); STAT ("factor_checked");
	tr_int (rv); tr_int (nsing > 0);
	if (sing) STAT ("matrices_singular"); else STAT ("matrices_nonsingular");
	if (!rv && (unsigned) w->f->dense_base != 0x5A5A5A5Au) STAT ("factor_used_dense_tail");   /* field is only written by dense_build_matrix */
	if (rv) { char m[96]; snprintf (m, sizeof m, "ILLfactor failed with rval=%d on a %s matrix", rv, sing ? "singular" : "non-singular"); fviol (0, "factor-error", m); return R_BROKEN; }
	if (nsing > 0 && !sing) { fviol (0, "factor-false-singular", "ILLfactor reports nsing > 0 but the matrix is non-singular"); return R_BROKEN; }
	if (nsing == 0 && sing) { fviol (0, "factor-missed-singular", "ILLfactor reports nsing == 0 but the matrix is singular"); return R_BROKEN; }
	if (sing) { STAT ("singular_reported_at_factor"); return R_SINGULAR; }
	return check_solves (w, g_M, 0) ? R_BROKEN : R_FINE;
}
/* run factor + replacements g_seq[0..len) from scratch; full checks at the last step only
 * (every proper prefix is the last step of its own execution) */
static int exec_seq (int len)
{
	FW w; fw_open (&w, g_set);
	i_seq++;
	int res = do_start (&w, len == 0);
	for (int t = 0; t < len && res == R_FINE; t++) {
		gen_column (g_seqk[t], g_seqpos[t], g_M, g_ent[t]);
		res = do_step (&w, g_seqpos[t], g_seqk[t], g_ent[t], t == len - 1, len);
	}
	fw_close (&w);
	return res;
}
/* one long deterministic chain of non-singular replacements, checked after every step: deep eta files, the eta limit of
 * the default configuration, repeated space growth */
static void exec_chain (long item, int N)
{
	FW w; fw_open (&w, g_set);
	int d = g_d, res = do_start (&w, 0);
	for (int t = 0; t < N && res == R_FINE; t++) {
		uint64_t h = smix ((uint64_t) item * 1000003u + (uint64_t) t);
		int pos = (int) (h % (uint64_t) d), k0 = (int) ((h >> 20) % (uint64_t) g_ncolk), k = -1;
		for (int j = 0; j < g_ncolk && k < 0; j++) {      /* first candidate that keeps the matrix non-singular (harness oracle) */
			int kk = (k0 + j) % g_ncolk;
			gen_column (kk, pos, g_M, g_ent[0]);
			for (int r = 0; r < d; r++) { mpq_set (g_rhs[r], E (g_M, r, pos)); mpq_set (E (g_M, r, pos), g_ent[0][r]); }
			int sing = is_singular (g_M);
			for (int r = 0; r < d; r++) mpq_set (E (g_M, r, pos), g_rhs[r]);
			if (!sing) k = kk;
		}
		if (k < 0) continue;
		gen_column (k, pos, g_M, g_ent[0]);
		g_chain = t; g_seqpos[0] = pos; g_seqk[0] = k;
		STAT ("chain_steps");
		res = do_step (&w, pos, k, g_ent[0], 1, 1);
		stat_max ("max_chain_length", t + 1);
	}
	g_chain = -1;
	fw_close (&w);
}
static int explore (int len)
{
	int res = exec_seq (len);
	if (len) stat_max ("max_sequence_length", len);
	if (res != R_FINE || len >= g_L) return res;
	for (int pos = 0; pos < g_d; pos++) for (int k = 0; k < g_ncolk; k++) { g_seqpos[len] = pos; g_seqk[len] = k; explore (len + 1); }
	return res;
}
static void fac_run (long item)
{
	g_set = g_setsel[item % g_nset];
	g_nviol = 0; i_seq = i_acc = i_ref = i_sing = 0;
	gen_matrix (item / g_nset, g_M0);
	STAT ("instances");
	{ char nm[40]; snprintf (nm, sizeof nm, "setting_%s", SETNAME[g_set]); stat_dyn (nm, ""); }
	qsx_log_reset ();
	int res0 = explore (0);
	if (g_nchain && res0 == R_FINE) exec_chain (item, g_nchain);
	if (i_seq > 1 || i_acc + i_ref > 0) STAT ("instances_nontrivial");
	STATN ("sequences", i_seq);
	if (sample_wanted () || g_verbose) {
		SBuf b; sb_init (&b); describe (&b, 0);
		if (g_verbose) vlog ("%s -> %ld sequences, %ld accepted, %ld refactored, %ld singular replacements\n", b.s, i_seq, i_acc, i_ref, i_sing);
		sample ("%s -> %ld sequences executed: %ld updates accepted, %ld refactorizations, %ld singular replacements, %d violations", b.s, i_seq, i_acc, i_ref, i_sing, g_nviol);
		sb_free (&b);
	}
}
Family fam_factor = { "factor", "sparse LU component (C13): --opt dim=1..32 --opt mat=all|pat --opt alpha=std|pm|01 --opt upd=0..4 --opt set=<digits of 0 default,1 etamax1,2 tinyspace,3 densemin0,4 etamax2,5 smalleta> --opt cols=auto|small|full --opt nvar=N --opt chain=N",
	fac_init, fac_count, fac_run, fac_finish, 300 };

/* ====================================================================== API level */
static int b_nviol;
static void lp_text (SBuf * b, const RefLP * L) { ref_dump (b, L, 0); }
static void bviol (const RefLP * L, const char *ctx, const char *sig, const char *what)
{
	if (b_nviol++ >= MAXVIOL_PER_ITEM) { STAT ("violations_suppressed"); return; }
	SBuf b; sb_init (&b); lp_text (&b, L);
	viol ("C13", sig, "%s [%s]: LP{%s}", what, ctx, b.s);
	sb_free (&b);
}
static int lsign (const RefLP * L, int r) { return (L->sense[r] == 'G' || L->sense[r] == 'R') ? -1 : 1; }
/* coefficient of basic variable `var` (API numbering: < n structural, else logical of row var - n) in row r */
static void bcoef (const RefLP * L, int var, int r, mpq_t out)
{
	if (var < L->n) mpq_set (out, REF_A (L, r, var));
	else mpq_set_si (out, var - L->n == r ? lsign (L, r) : 0, 1);
}
/* check one (order, binv row i, tableau row i) triple; brow / trow may be NULL when not available */
static void check_rows (const RefLP * L, const char *ctx, const char *route, const int *order, int i, mpq_t * brow, mpq_t * trow)
{
	int n = L->n, m = L->m;
	char what[200];
	mpq_t s, t, c; mpq_init (s); mpq_init (t); mpq_init (c);
	mpq_t *der = NULL;
	if (!brow && trow) {        /* derive the B^-1 row from the logical part of the tableau row */
		der = mpq_arr_new (m);
		for (int r = 0; r < m; r++) { mpq_set (der[r], trow[n + r]); if (lsign (L, r) < 0) mpq_neg (der[r], der[r]); }
	}
	mpq_t *z = brow ? brow : der;
	if (brow) {
		STAT ("binv_rows_checked");
		for (int k = 0; k < m; k++) {
			mpq_set_ui (s, 0, 1);
			for (int r = 0; r < m; r++) { bcoef (L, order[k], r, c); mpq_mul (t, z[r], c); mpq_add (s, s, t); }
			if (mpq_cmp_si (s, k == i, 1)) {
				snprintf (what, sizeof what, "%s: row %d of B^-1 times basis column at position %d (variable %d) is not %d", route, i, k, order[k], k == i);
				bviol (L, ctx, "binv-row-wrong", what); break;
			}
		}
	}
	if (trow) {
		STAT ("tableau_rows_checked");
		for (int j = 0; j < n + m; j++) {
			mpq_set_ui (s, 0, 1);
			for (int r = 0; r < m; r++) { bcoef (L, j, r, c); mpq_mul (t, z[r], c); mpq_add (s, s, t); }
			if (!mpq_equal (s, trow[j])) {
				snprintf (what, sizeof what, "%s: tableau row %d entry %d differs from row_i(B^-1) * column %d of [A | logicals]", route, i, j, j);
				bviol (L, ctx, brow ? "tableau-row-wrong" : "tableau-row-inconsistent", what); break;
			}
		}
		for (int k = 0; k < m; k++) if (mpq_cmp_si (trow[order[k]], k == i, 1)) {
			snprintf (what, sizeof what, "%s: tableau row %d has entry != %d in the column of the basic variable at position %d (variable %d)", route, i, k == i, k, order[k]);
			bviol (L, ctx, "tableau-basic-column-wrong", what); break;
		}
	}
	if (der) mpq_arr_free (der, m);
	mpq_clear (s); mpq_clear (t); mpq_clear (c);
}
static int order_ok (const RefLP * L, const int *order)
{
	char seen[64] = { 0 };
	for (int k = 0; k < L->m; k++) { if (order[k] < 0 || order[k] >= L->n + L->m || seen[order[k]]) return 0; seen[order[k]] = 1; }
	return 1;
}
static int lp_usable (mpq_QSprob p, const RefLP * L)
{
	return p->lp && p->lp->f && p->lp->basisid != -1 && p->lp->baz && p->lp->nbaz && p->lp->bz && p->lp->O == p->qslp && p->lp->nrows == L->m && p->lp->ncols == L->n + L->m;
}
/* the factorization the simplex left behind (with all rank-one updates since its last refactorization) is what the next
 * pivot-in / warm start continues with: solve with it directly through the exported ILLbasis_row_solve / column_solve.
 * (ILLlib_tableau and therefore QSget_binv_row / QSget_tableau_row re-factor whenever an update happened.) */
static void check_insitu (mpq_QSprob p, const RefLP * L, const char *ctx)
{
	int n = L->n, m = L->m, order[32], ind[32], one = 0;
	if (!lp_usable (p, L) || p->lp->f->dim != m) return;
	if (mpq_ILLlib_basis_order (p->lp, order) || !order_ok (L, order)) return;
	STAT ("insitu_states_checked");
	stat_max ("max_etacnt_insitu", p->lp->f->etacnt);
	stat_max ("max_updates_since_refactor_insitu", p->lp->basisid - p->lp->fbasisid);
	if (p->lp->f->etacnt > 0) STAT ("insitu_states_with_eta_rows");
	if (p->lp->basisid > p->lp->fbasisid) STAT ("insitu_states_with_updates");
	mpq_t *dense = mpq_arr_new (m), *col = mpq_arr_new (m), s, t, c, e;
	mpq_init (s); mpq_init (t); mpq_init (c); mpq_init (e); mpq_set_ui (e, 1, 1);
	mpq_svector a, z; mpq_ILLsvector_init (&z); mpq_ILLsvector_alloc (&z, m);
	for (int i = 0; i < m; i++) {
		one = i; a.size = 1; a.nzcnt = 1; a.indx = &one; a.coef = &e;
		mpq_ILLbasis_row_solve (p->lp, &a, &z);
		int bad = z.nzcnt < 0 || z.nzcnt > m;
		for (int k = 0; k < m; k++) mpq_set_ui (dense[k], 0, 1);
		for (int k = 0; k < z.nzcnt && !bad; k++) { if (z.indx[k] < 0 || z.indx[k] >= m) bad = 1; else mpq_set (dense[z.indx[k]], z.coef[k]); }
		if (bad) { bviol (L, ctx, "insitu-solve-malformed", "ILLbasis_row_solve returned a malformed sparse vector"); break; }
		check_rows (L, ctx, "ILLbasis_row_solve with the factorization left by the call", order, i, dense, NULL);
	}
	for (int j = 0; j < n + m; j++) {
		a.size = m; a.nzcnt = 0; a.indx = ind; a.coef = col;
		for (int r = 0; r < m; r++) { bcoef (L, j, r, c); if (mpq_sgn (c)) { ind[a.nzcnt] = r; mpq_set (col[a.nzcnt], c); a.nzcnt++; } }
		mpq_ILLbasis_column_solve (p->lp, &a, &z);
		int bad = z.nzcnt < 0 || z.nzcnt > m;
		for (int k = 0; k < m; k++) mpq_set_ui (dense[k], 0, 1);
		for (int k = 0; k < z.nzcnt && !bad; k++) { if (z.indx[k] < 0 || z.indx[k] >= m) bad = 1; else mpq_set (dense[z.indx[k]], z.coef[k]); }
		if (bad) { bviol (L, ctx, "insitu-solve-malformed", "ILLbasis_column_solve returned a malformed sparse vector"); break; }
		STAT ("insitu_column_solves_checked");
		for (int r = 0; r < m && !bad; r++) {
			mpq_set_ui (s, 0, 1);
			for (int k = 0; k < m; k++) { bcoef (L, order[k], r, c); mpq_mul (t, c, dense[k]); mpq_add (s, s, t); }
			bcoef (L, j, r, c);
			if (!mpq_equal (s, c)) {
				char what[160]; snprintf (what, sizeof what, "ILLbasis_column_solve with the factorization left by the call: B y != column %d of [A | logicals] (row %d)", j, r);
				bviol (L, ctx, "insitu-column-solve-wrong", what); bad = 1;
			}
		}
	}
	mpq_ILLsvector_free (&z);
	mpq_arr_free (dense, m); mpq_arr_free (col, m);
	mpq_clear (s); mpq_clear (t); mpq_clear (c); mpq_clear (e);
}
/* after a successful call: fetch through the public API and through the exported ILLlib functions */
static int g_api_only;   /* family hist: after QSexact_solver the simplex data of p are not the state a next pivot continues from; only the public API is judged there */
static void check_basis (mpq_QSprob p, const RefLP * L, const char *ctx)
{
	int n = L->n, m = L->m, order[32];
	mpq_t *brow = mpq_arr_new (m), *trow = mpq_arr_new (n + m);
	STAT ("basis_states");
	if (!g_api_only) check_insitu (p, L, ctx);
	/* public API */
	if (mpq_QSget_basis_order (p, order)) STAT ("api_basis_order_unavailable");
	else if (!order_ok (L, order)) bviol (L, ctx, "basis-order-invalid", "mpq_QSget_basis_order returned an out-of-range or repeated variable");
	else {
		STAT ("api_states_checked");
		for (int i = 0; i < m; i++) {
			int rb = mpq_QSget_binv_row (p, i, brow), rt = mpq_QSget_tableau_row (p, i, trow);
			if (rb) STAT ("api_binv_row_unavailable");
			if (rt) STAT ("api_tableau_row_unavailable");
			if (!rb || !rt) check_rows (L, ctx, "public API", order, i, rb ? NULL : brow, rt ? NULL : trow);
		}
	}
	/* exported lib functions: work on the simplex's current basis, no cached optimum needed */
	if (g_api_only) { }
	else if (lp_usable (p, L)) {
		if (mpq_ILLlib_basis_order (p->lp, order)) STAT ("lib_basis_order_failed");
		else if (!order_ok (L, order)) bviol (L, ctx, "basis-order-invalid", "mpq_ILLlib_basis_order returned an out-of-range or repeated variable");
		else {
			STAT ("lib_states_checked");
			for (int i = 0; i < m; i++) {
				int rt = mpq_ILLlib_tableau (p->lp, i, brow, trow);
				if (rt) { STAT ("lib_tableau_failed"); continue; }
				check_rows (L, ctx, "ILLlib_tableau", order, i, brow, trow);
			}
		}
	} else STAT ("lib_route_no_basis");
	mpq_arr_free (brow, m); mpq_arr_free (trow, n + m);
}
/* used by family hist (opt binv=1): the same multiplication-back after a solve inside an edit/solve history */
void c13_check_basis (mpq_QSprob p, const RefLP * L, const char *ctx) { b_nviol = 0; g_api_only = 1; check_basis (p, L, ctx); g_api_only = 0; }
static long iters_of (mpq_QSprob p)
{
	int a = 0, b = 0, c = 0, d = 0, t = 0;
	mpq_QSget_itcnt (p, &a, &b, &c, &d, &t);
	return t;
}
static const char *o_bfam;
static int b_isT, b_nlim, b_lims[24], b_scal0, b_scal1, b_price0, b_price1;
static void binv_init (void)
{
	o_bfam = opt_str ("fam", "S0c");
	b_isT = !strcmp (o_bfam, "T");
	if (!b_isT) lpfam_select (o_bfam);
	b_lims[b_nlim++] = 0;                               /* 0 = run to completion; then the iteration limits of --opt lims=1,2,3 */
	for (const char *q = opt_str ("lims", "1,2,3"); *q && b_nlim < 24;) { char *e; long v = strtol (q, &e, 10); if (e == q) break; if (v > 0) b_lims[b_nlim++] = (int) v; q = *e ? e + 1 : e; }
	const char *pr = opt_str ("price", "default");      /* default (steepest edge) | dantzig | both */
	b_price0 = strcmp (pr, "dantzig") != 0; b_price1 = strcmp (pr, "default") != 0;
	const char *sc = opt_str ("scal", "both");          /* simplex scaling off / on / both */
	b_scal0 = strcmp (sc, "1") != 0; b_scal1 = strcmp (sc, "0") != 0;
	qsx_start ();
}
static long binv_count (void) { return b_isT ? tfam_count () : lpfam_count (); }
static void binv_finish (void) { qsx_stop (); }
static void binv_run (long item)
{
	char label[128] = "";
	RefLP *L = b_isT ? tfam_decode (item, label, sizeof label) : lpfam_decode (item);
	if (!L) { STAT ("skipped_noncanonical"); return; }
	STAT ("instances");
	b_nviol = 0;
	int n = L->n, m = L->m, nontrivial = 0;
	char ctx[160];
	if (m == 0 || m > 30 || n + m > 60) { STAT ("instances_without_rows"); ref_free (L); return; }
	qsx_log_reset ();
	/* complete and iteration-limited simplex runs */
	for (int dual = 0; dual < 2; dual++) for (int price = 0; price < 2; price++) for (int scal = 0; scal < 2; scal++) for (int li = 0; li < b_nlim; li++) {
		int lim = b_lims[li];
		if ((scal ? !b_scal1 : !b_scal0) || (price ? !b_price1 : !b_price0)) continue;
		mpq_QSprob p = qsx_build (L, ROUTE_LOAD, 0);
		if (!p) { STAT ("build_failed"); continue; }
		int st = 0, rv = mpq_QSset_param (p, QS_PARAM_SIMPLEX_SCALING, scal);
		if (lim) rv |= mpq_QSset_param (p, QS_PARAM_SIMPLEX_MAX_ITERATIONS, lim);
		if (price) rv |= mpq_QSset_param (p, QS_PARAM_PRIMAL_PRICING, QS_PRICE_PDANTZIG) | mpq_QSset_param (p, QS_PARAM_DUAL_PRICING, QS_PRICE_DDANTZIG);
		if (rv) STAT ("set_param_failed");
		rv = dual ? mpq_QSopt_dual (p, &st) : mpq_QSopt_primal (p, &st);
		STAT ("executions");
		tr_int (rv); tr_int (st);
		snprintf (ctx, sizeof ctx, "%s pricing=%s scaling=%d itlim=%d -> rval=%d status=%s", dual ? "QSopt_dual" : "QSopt_primal", price ? "dantzig" : "default", scal, lim, rv, status_name (st));
		{ char nm[64]; snprintf (nm, sizeof nm, "solve_%s", rv ? "ERR" : status_name (st)); stat_dyn (nm, ""); }
		if (!rv) {
			long it = iters_of (p);
			if (it > 0) nontrivial = 1;
			stat_max ("max_simplex_iterations", it);
			if (it > 100000) note ("long-run", "%s needed %ld iterations", ctx, it);
			if (g_verbose) vlog ("%s iters=%ld etacnt=%d\n", ctx, it, p->lp && p->lp->f ? p->lp->f->etacnt : -1);
			check_basis (p, L, ctx);
		}
		mpq_QSfree_prob (p);
	}
	/* pivot-ins after an optimal solve: each single row / column on a fresh object, then the remaining ones chained */
	for (int kind = 0; kind < 2; kind++) for (int first = 0; first < (kind ? n : m); first++) {
		mpq_QSprob p = qsx_build (L, ROUTE_LOAD, 0);
		if (!p) { STAT ("build_failed"); continue; }
		int st = 0, cntk = kind ? n : m;
		mpq_QSset_param (p, QS_PARAM_SIMPLEX_SCALING, 0);
		int rv = (first & 1) ? mpq_QSopt_dual (p, &st) : mpq_QSopt_primal (p, &st);
		if (rv || st != QS_LP_OPTIMAL) { STAT ("pivotin_not_optimal"); mpq_QSfree_prob (p); continue; }
		for (int j = 0; j < cntk; j++) {
			int tgt = (first + j) % cntk;
			rv = kind ? mpq_QSopt_pivotin_col (p, 1, &tgt) : mpq_QSopt_pivotin_row (p, 1, &tgt);
			STAT ("executions");
			tr_int (rv);
			snprintf (ctx, sizeof ctx, "after optimal %s solve: pivotin_%s(%d) (%d%s call on this object) -> rval=%d", (first & 1) ? "dual" : "primal", kind ? "col" : "row", tgt, j + 1, j ? "th" : "st", rv);
			if (rv) { STAT ("pivotin_failed"); break; }
			STAT ("pivotin_ok");
			nontrivial = 1;
			check_basis (p, L, ctx);
		}
		mpq_QSfree_prob (p);
	}
	if (nontrivial) STAT ("instances_nontrivial");
	if (sample_wanted ()) { SBuf b; sb_init (&b); lp_text (&b, L); sample ("%s LP{%s}: simplex runs (complete + %d iteration limits) + pivot-ins checked, %d violations", label, b.s, b_nlim - 1, b_nviol); sb_free (&b); }
	ref_free (L);
}
Family fam_binv = { "binv", "B^-1 rows / tableau rows multiply back (C13); --opt fam=S0c|S0|S3|T.. --opt lims=1,2,3 --opt scal=both|0|1 --opt price=default|dantzig|both", binv_init, binv_count, binv_run, binv_finish, 120 };
