#define _GNU_SOURCE
#include <stdlib.h>
#include <string.h>
#include <stdarg.h>
#include <unistd.h>
#include <fcntl.h>
#include <errno.h>
#include <signal.h>
#include <time.h>
#include <ftw.h>
#include <sys/mman.h>
#include <sys/wait.h>
#include <sys/stat.h>
#include <sys/resource.h>
#include "engine.h"

#if defined(__has_feature)
#if __has_feature(address_sanitizer)
#define HAVE_ASAN 1
#endif
#endif
#ifdef __SANITIZE_ADDRESS__
#define HAVE_ASAN 1
#endif
#ifdef HAVE_ASAN
size_t __sanitizer_get_current_allocated_bytes (void);
int __lsan_do_recoverable_leak_check (void);
void __sanitizer_set_report_path (const char *path);
#endif

#define MAXSTAT 1024
#define STATNAME 64
#define DSETS 8
#define DBITS 17
#define MAXOPT 64

typedef struct {
	volatile long cur, done, t_start_ms;
	volatile long nviol, nsample;
	int nstat;
	char names[MAXSTAT][STATNAME];
	long vals[MAXSTAT];
	char ismax[MAXSTAT];
	char dnames[DSETS][32];
	long dcount[DSETS];
	uint64_t dtab[DSETS][1 << DBITS];
	uint64_t trxor;
	uint64_t trsum;
} Shm;
static Shm *shm;
static int g_outfd = -1;
int g_errfd = 2;
int g_verbose = 0, g_thorough = 0;
long g_seed = 0;
char g_scratch[256] = "";
static const char *g_optk[MAXOPT], *g_optv[MAXOPT];
static int g_nopt;
static long g_cur_item = -1;
static const Family *g_fam;
static long g_sample_mod = 1;
static int g_trdump = 0;
static int g_in_child = 0;

long current_item (void) { return g_cur_item; }
const char *opt_str (const char *key, const char *def)
{
	for (int i = 0; i < g_nopt; i++) if (!strcmp (g_optk[i], key)) return g_optv[i];
	return def;
}
long opt_int (const char *key, long def)
{
	const char *s = opt_str (key, NULL);
	return s ? strtol (s, NULL, 0) : def;
}

static long now_ms (void)
{
	struct timespec ts; clock_gettime (CLOCK_MONOTONIC, &ts);
	return ts.tv_sec * 1000L + ts.tv_nsec / 1000000L;
}
uint64_t fnv1a (const void *p, size_t n, uint64_t h)
{
	const unsigned char *s = p;
	for (size_t i = 0; i < n; i++) { h ^= s[i]; h *= 1099511628211ULL; }
	return h;
}
static uint64_t mix64 (uint64_t x)
{
	x ^= x >> 33; x *= 0xff51afd7ed558ccdULL; x ^= x >> 33; x *= 0xc4ceb9fe1a85ec53ULL; x ^= x >> 33;
	return x;
}

/* ---------------- output records ---------------- */
static void json_escape (char *dst, size_t dl, const char *src)
{
	size_t k = 0;
	for (; *src && k + 8 < dl; src++) {
		unsigned char c = (unsigned char) *src;
		if (c == '"' || c == '\\') { dst[k++] = '\\'; dst[k++] = (char) c; }
		else if (c == '\n') { dst[k++] = '\\'; dst[k++] = 'n'; }
		else if (c == '\t') { dst[k++] = '\\'; dst[k++] = 't'; }
		else if (c < 0x20 || c >= 0x7f) k += (size_t) snprintf (dst + k, dl - k, "\\u%04x", c);
		else dst[k++] = (char) c;
	}
	dst[k] = 0;
}
static void out_line (const char *s)
{
	size_t n = strlen (s);
	if (g_outfd >= 0) { ssize_t w = write (g_outfd, s, n); (void) w; }
	if (g_verbose || g_outfd < 0) { ssize_t w = write (g_errfd, s, n); (void) w; }
}
static void emit (const char *type, const char *prop, const char *sig, const char *msg)
{
	size_t ml = strlen (msg) * 6 + 64;
	char *e = malloc (ml), *line = malloc (ml + 512), es[400];
	json_escape (e, ml, msg);
	json_escape (es, sizeof es, sig ? sig : "");
	snprintf (line, ml + 512, "{\"t\":\"%s\",\"family\":\"%s\",\"item\":%ld,\"prop\":\"%s\",\"sig\":\"%s\",\"msg\":\"%s\"}\n",
						type, g_fam ? g_fam->name : "", g_cur_item, prop ? prop : "", es, e);
	out_line (line);
	free (e); free (line);
}
void viol (const char *prop, const char *sig, const char *fmt, ...)
{
	char buf[8192];
	va_list ap; va_start (ap, fmt); vsnprintf (buf, sizeof buf, fmt, ap); va_end (ap);
	if (shm) shm->nviol++;
	emit ("viol", prop, sig, buf);
}
void note (const char *kind, const char *fmt, ...)
{
	char buf[8192];
	va_list ap; va_start (ap, fmt); vsnprintf (buf, sizeof buf, fmt, ap); va_end (ap);
	emit ("note", kind, "", buf);
}
int sample_wanted (void)
{
	if (!shm || shm->nsample >= 5) return 0;
	if (g_cur_item < 0) return 0;
	return mix64 ((uint64_t) g_cur_item * 2654435761u + (uint64_t) g_seed) % (uint64_t) g_sample_mod == 0;
}
void sample (const char *fmt, ...)
{
	char buf[8192];
	if (!sample_wanted ()) return;
	va_list ap; va_start (ap, fmt); vsnprintf (buf, sizeof buf, fmt, ap); va_end (ap);
	shm->nsample++;
	emit ("sample", "", "", buf);
}
void vlog (const char *fmt, ...)
{
	if (!g_verbose) return;
	char buf[16384];
	va_list ap; va_start (ap, fmt); int k = vsnprintf (buf, sizeof buf, fmt, ap); va_end (ap);
	if (k > (int) sizeof buf - 1) k = sizeof buf - 1;
	ssize_t w = write (g_errfd, buf, (size_t) k); (void) w;
}

/* ---------------- counters ---------------- */
static long dummy_slot;
long *stat_slot (const char *name)
{
	if (!shm) return &dummy_slot;
	for (int i = 0; i < shm->nstat; i++) if (!strncmp (shm->names[i], name, STATNAME - 1)) return &shm->vals[i];
	if (shm->nstat >= MAXSTAT) return &dummy_slot;
	int i = shm->nstat++;
	strncpy (shm->names[i], name, STATNAME - 1);
	return &shm->vals[i];
}
void stat_dyn (const char *prefix, const char *suffix)
{
	char nm[STATNAME]; snprintf (nm, sizeof nm, "%s%s", prefix, suffix);
	(*stat_slot (nm))++;
}
void stat_max (const char *name, long v)
{
	long *s = stat_slot (name);
	if (s != &dummy_slot) shm->ismax[s - shm->vals] = 1;
	if (v > *s) *s = v;
}
void distinct_add (const char *set, uint64_t h)
{
	if (!shm) return;
	int d = -1;
	for (int i = 0; i < DSETS; i++) {
		if (!shm->dnames[i][0]) { strncpy (shm->dnames[i], set, 31); d = i; break; }
		if (!strcmp (shm->dnames[i], set)) { d = i; break; }
	}
	if (d < 0) return;
	if (!h) h = 1;
	uint64_t mask = (1u << DBITS) - 1, k = mix64 (h) & mask;
	if (shm->dcount[d] >= (long) (mask * 3 / 4)) return;   /* saturated: count is a lower bound */
	while (shm->dtab[d][k]) { if (shm->dtab[d][k] == h) return; k = (k + 1) & mask; }
	shm->dtab[d][k] = h; shm->dcount[d]++;
}

/* ---------------- transcript ---------------- */
static uint64_t g_tr = 1469598103934665603ULL;
void tr_reset (void) { g_tr = 1469598103934665603ULL; }
void tr_bytes (const void *p, size_t n) { g_tr = fnv1a (p, n, g_tr); }
void tr_int (long v) { tr_bytes (&v, sizeof v); }
void tr_str (const char *s) { if (s) tr_bytes (s, strlen (s) + 1); else tr_int (-7); }
void tr_mpq (const mpq_t q)
{
	char sbuf[256], *s = sbuf;
	size_t k = mpz_sizeinbase (mpq_numref (q), 16) + mpz_sizeinbase (mpq_denref (q), 16) + 4;
	if (k > sizeof sbuf) s = malloc (k);
	mpq_get_str (s, 16, q);
	tr_str (s);
	if (s != sbuf) free (s);
}
uint64_t tr_value (void) { return g_tr; }

/* ---------------- capture ---------------- */
static int cap_fd = -1, save1 = -1, save2 = -1;
void cap_begin (void)
{
	if (cap_fd < 0) cap_fd = memfd_create ("cap", 0);
	if (cap_fd < 0) return;
	if (ftruncate (cap_fd, 0)) { }
	lseek (cap_fd, 0, SEEK_SET);
	fflush (stdout); fflush (stderr);
	save1 = dup (1); save2 = dup (2);
	dup2 (cap_fd, 1); dup2 (cap_fd, 2);
}
long cap_end (char *buf, size_t buflen)
{
	if (cap_fd < 0 || save1 < 0) return 0;
	fflush (stdout); fflush (stderr);
	dup2 (save1, 1); dup2 (save2, 2); close (save1); close (save2); save1 = save2 = -1;
	off_t n = lseek (cap_fd, 0, SEEK_END);
	if (buf && buflen) {
		size_t k = (size_t) n < buflen - 1 ? (size_t) n : buflen - 1;
		ssize_t r = pread (cap_fd, buf, k, 0);
		buf[r > 0 ? r : 0] = 0;
	}
	return (long) n;
}

/* ---------------- memory ---------------- */
int mem_tracking (void)
{
#ifdef HAVE_ASAN
	return 1;
#else
	return 0;
#endif
}
size_t mem_now (void)
{
#ifdef HAVE_ASAN
	return __sanitizer_get_current_allocated_bytes ();
#else
	return 0;
#endif
}
int leak_check_now (void)
{
#ifdef HAVE_ASAN
	return __lsan_do_recoverable_leak_check ();
#else
	return 0;
#endif
}

/* ---------------- main loop ---------------- */
static int rm_cb (const char *p, const struct stat *sb, int t, struct FTW *f) { (void) sb; (void) t; (void) f; return remove (p); }
static void cleanup_scratch (void)
{
	if (g_in_child || !g_scratch[0]) return;
	if (getenv ("VERIF_KEEP_SCRATCH")) { fprintf (stderr, "scratch kept: %s\n", g_scratch); return; }
	if (chdir ("/")) { }
	nftw (g_scratch, rm_cb, 16, FTW_DEPTH | FTW_PHYS);
}
static volatile sig_atomic_t g_term = 0;
static void on_term (int sig) { (void) sig; g_term = 1; }

static void run_one (const Family * F, long item)
{
	g_cur_item = item;
	shm->t_start_ms = now_ms (); shm->cur = item;   /* start time first: the parent reads cur, then the time */
	tr_reset ();
	F->run (item);
	uint64_t h = mix64 (tr_value () ^ mix64 ((uint64_t) item + 0x9e3779b97f4a7c15ULL));
	shm->trxor ^= h; shm->trsum += h;
	if (g_trdump) {
		char line[128]; snprintf (line, sizeof line, "{\"t\":\"tr\",\"item\":%ld,\"h\":\"%016llx\"}\n", item, (unsigned long long) tr_value ());
		out_line (line);
	}
	shm->done++;
	g_cur_item = -1;
}

static void read_san_log (pid_t pid, char *buf, size_t bl)
{
	char path[400]; buf[0] = 0;
	snprintf (path, sizeof path, "%s/san.%d", g_scratch, (int) pid);
	int fd = open (path, O_RDONLY);
	if (fd < 0) return;
	ssize_t r = read (fd, buf, bl - 1);
	buf[r > 0 ? r : 0] = 0;
	close (fd);
	unlink (path);
}

int main (int argc, char **argv)
{
	const char *famname = NULL, *outpath = NULL;
	long shard = 0, nshards = 1, rlo = 0, rhi = -1, only = -1;
	int timeout_s = 0, nofork = 0, count_only = 0;
	for (int i = 1; i < argc; i++) {
		if (!strcmp (argv[i], "--shard") && i + 1 < argc) { sscanf (argv[++i], "%ld/%ld", &shard, &nshards); }
		else if (!strcmp (argv[i], "--range") && i + 2 < argc) { rlo = atol (argv[++i]); rhi = atol (argv[++i]); }
		else if (!strcmp (argv[i], "--item") && i + 1 < argc) { only = atol (argv[++i]); }
		else if (!strcmp (argv[i], "--out") && i + 1 < argc) outpath = argv[++i];
		else if (!strcmp (argv[i], "--verbose")) g_verbose = 1;
		else if (!strcmp (argv[i], "--thorough")) g_thorough = 1;
		else if (!strcmp (argv[i], "--nofork")) nofork = 1;
		else if (!strcmp (argv[i], "--count")) count_only = 1;
		else if (!strcmp (argv[i], "--trdump")) g_trdump = 1;
		else if (!strcmp (argv[i], "--seed") && i + 1 < argc) g_seed = atol (argv[++i]);
		else if (!strcmp (argv[i], "--timeout") && i + 1 < argc) timeout_s = atoi (argv[++i]);
		else if (!strcmp (argv[i], "--opt") && i + 1 < argc) {
			char *kv = strdup (argv[++i]), *eq = strchr (kv, '=');
			if (eq && g_nopt < MAXOPT) { *eq = 0; g_optk[g_nopt] = kv; g_optv[g_nopt++] = eq + 1; }
		}
		else if (argv[i][0] != '-' && !famname) famname = argv[i];
		else { fprintf (stderr, "bad argument %s\n", argv[i]); return 2; }
	}
	if (!famname) {
		fprintf (stderr, "families:\n");
		for (Family ** f = g_families; *f; f++) fprintf (stderr, "  %-14s %s\n", (*f)->name, (*f)->desc);
		return 2;
	}
	const Family *F = NULL;
	for (Family ** f = g_families; *f; f++) if (!strcmp ((*f)->name, famname)) F = *f;
	if (!F) { fprintf (stderr, "unknown family %s\n", famname); return 2; }
	g_fam = F;
	g_errfd = dup (2);
	if (outpath) { g_outfd = open (outpath, O_WRONLY | O_CREAT | O_APPEND, 0644); if (g_outfd < 0) { perror (outpath); return 2; } }
	shm = mmap (NULL, sizeof (Shm), PROT_READ | PROT_WRITE, MAP_SHARED | MAP_ANONYMOUS, -1, 0);
	if (shm == MAP_FAILED) { perror ("mmap"); return 2; }
	shm->cur = -1;
	/* private scratch cwd */
	{
		const char *base = getenv ("VERIF_SCRATCH_BASE");
		if (!base) base = "/tmp";
		snprintf (g_scratch, sizeof g_scratch, "%s/qsxv.XXXXXX", base);
		if (!mkdtemp (g_scratch)) { perror ("mkdtemp"); return 2; }
		if (chdir (g_scratch)) { perror ("chdir"); return 2; }
		atexit (cleanup_scratch);
		signal (SIGTERM, on_term); signal (SIGINT, on_term);
	}
	/* sanitizer reports go to files in the scratch dir so that captured stderr stays clean */
	{
		char sp[400]; snprintf (sp, sizeof sp, "%s/san", g_scratch);
		setenv ("VERIF_SANLOG", sp, 1);
	}
	struct rlimit rl = { 0, 0 }; setrlimit (RLIMIT_CORE, &rl);
#ifdef HAVE_ASAN
	{ char sp[400]; snprintf (sp, sizeof sp, "%s/san", g_scratch); __sanitizer_set_report_path (sp); }
#endif
	if (F->init) F->init ();
	long total = F->count ();
	if (count_only) { printf ("%ld\n", total); return 0; }
	if (rhi < 0 || rhi > total) rhi = total;
	if (!timeout_s) timeout_s = F->per_item_timeout_s ? F->per_item_timeout_s : 20;
	{
		long mine = (rhi - rlo) / nshards + 1;
		g_sample_mod = mine / 6; if (g_sample_mod < 1) g_sample_mod = 1;
	}
	long t0 = now_ms ();
	if (only >= 0) {
		/* replay mode: in-process, no containment */
		if (only >= total) { fprintf (stderr, "item %ld out of range (count %ld)\n", only, total); return 2; }
		g_sample_mod = 1;
		run_one (F, only);
		if (F->finish) F->finish ();
		char line[256];
		snprintf (line, sizeof line, "{\"t\":\"end\",\"family\":\"%s\",\"items\":1,\"viol\":%ld,\"tr\":\"%016llx\"}\n", F->name, shm->nviol, (unsigned long long) shm->trxor);
		out_line (line);
		return shm->nviol ? 1 : 0;
	}
	long pos = rlo + shard, crashes = 0, hangs = 0;
	while (pos < rhi) {
		if (nofork) {
			for (long i = pos; i < rhi; i += nshards) run_one (F, i);
			if (F->finish) F->finish ();
			break;
		}
		fflush (NULL);
		pid_t pid = fork ();
		if (pid < 0) { perror ("fork"); return 2; }
		if (pid == 0) {
			g_in_child = 1;
			for (long i = pos; i < rhi; i += nshards) run_one (F, i);
			shm->cur = -2;
			if (F->finish) F->finish ();
			shm->cur = -1;
			_exit (0);
		}
		int st = 0, hung = 0;
		for (;;) {
			pid_t w = waitpid (pid, &st, WNOHANG);
			if (w == pid) break;
			if (w < 0 && errno != EINTR) break;
			if (g_term) { kill (pid, SIGKILL); waitpid (pid, &st, 0); break; }
			long c = shm->cur;
			if (c >= 0 && now_ms () - shm->t_start_ms > timeout_s * 1000L) {
				kill (pid, SIGKILL); waitpid (pid, &st, 0); hung = 1; break;
			}
			struct timespec ts = { 0, 5 * 1000 * 1000 }; nanosleep (&ts, NULL);
		}
		if (g_term) break;
		if (!hung && WIFEXITED (st) && WEXITSTATUS (st) == 0) break;
		long c = shm->cur;
		char sanlog[6000]; read_san_log (pid, sanlog, sizeof sanlog);
		g_cur_item = c;
		if (c == -2 || c == -1) {
			/* died in finish(): report against no item */
			char m[6400]; snprintf (m, sizeof m, "worker died outside an item (status 0x%x) %s", st, sanlog);
			emit ("crash", "", "outside-item", m);
			break;
		}
		if (hung) {
			/* re-run alone with 10x limit before calling it a hang */
			fflush (NULL);
			pid_t p2 = fork ();
			if (p2 == 0) { g_in_child = 1; run_one (F, c); _exit (0); }
			int st2 = 0; long tb = now_ms (); int done2 = 0;
			for (;;) {
				pid_t w = waitpid (p2, &st2, WNOHANG);
				if (w == p2) { done2 = 1; break; }
				if (now_ms () - tb > timeout_s * 10000L) { kill (p2, SIGKILL); waitpid (p2, &st2, 0); break; }
				struct timespec ts = { 0, 20 * 1000 * 1000 }; nanosleep (&ts, NULL);
			}
			if (done2 && WIFEXITED (st2) && WEXITSTATUS (st2) == 0) {
				char m[200]; snprintf (m, sizeof m, "item needed more than %d s (finished alone in %ld ms)", timeout_s, now_ms () - tb);
				emit ("note", "slow", "", m);
			} else if (done2) {
				read_san_log (p2, sanlog, sizeof sanlog);
				char m[6400]; snprintf (m, sizeof m, "status=0x%x signal=%d exit=%d %s", st2, WIFSIGNALED (st2) ? WTERMSIG (st2) : 0, WIFEXITED (st2) ? WEXITSTATUS (st2) : -1, sanlog);
				emit ("crash", "", "crash", m); crashes++;
			} else {
				char m[200]; snprintf (m, sizeof m, "no completion within %d s (re-run alone with 10x limit)", timeout_s * 10);
				emit ("hang", "", "hang", m); hangs++;
			}
		} else {
			char m[6400];
			snprintf (m, sizeof m, "status=0x%x signal=%d exit=%d %s", st, WIFSIGNALED (st) ? WTERMSIG (st) : 0, WIFEXITED (st) ? WEXITSTATUS (st) : -1, sanlog);
			emit ("crash", "", "crash", m); crashes++;
		}
		g_cur_item = -1;
		shm->cur = -1;
		pos = c + nshards;
	}
	/* final stats line */
	{
		size_t cap = 1 << 17; char *b = malloc (cap); size_t k = 0;
		k += (size_t) snprintf (b + k, cap - k, "{\"t\":\"stats\",\"family\":\"%s\",\"shard\":%ld,\"nshards\":%ld,\"total\":%ld,\"lo\":%ld,\"hi\":%ld,\"done\":%ld,\"viol\":%ld,\"crashes\":%ld,\"hangs\":%ld,\"interrupted\":%d,\"wall_ms\":%ld,\"trxor\":\"%016llx\",\"trsum\":\"%016llx\",\"counters\":{",
													 F->name, shard, nshards, total, rlo, rhi, shm->done, shm->nviol, crashes, hangs, (int) g_term, now_ms () - t0,
													 (unsigned long long) shm->trxor, (unsigned long long) shm->trsum);
		for (int i = 0; i < shm->nstat && k + 200 < cap; i++)
			k += (size_t) snprintf (b + k, cap - k, "%s\"%s%s\":%ld", i ? "," : "", shm->ismax[i] ? "max:" : "", shm->names[i], shm->vals[i]);
		k += (size_t) snprintf (b + k, cap - k, "},\"distinct\":{");
		int first = 1;
		for (int d = 0; d < DSETS; d++) if (shm->dnames[d][0]) { k += (size_t) snprintf (b + k, cap - k, "%s\"%s\":%ld", first ? "" : ",", shm->dnames[d], shm->dcount[d]); first = 0; }
		k += (size_t) snprintf (b + k, cap - k, "}}\n");
		out_line (b); free (b);
	}
	return 0;
}
