/* Exploration engine: integer-indexed item spaces, sharding, crash containment
 * by fork, shared-memory counters, violation/sample records, transcript hash. */
#ifndef VERIF_ENGINE_H
#define VERIF_ENGINE_H
#include <stdio.h>
#include <stdint.h>
#include <gmp.h>

typedef struct Family {
	const char *name;
	const char *desc;
	void (*init) (void);        /* once per process, before count(); may read options */
	long (*count) (void);       /* number of items */
	void (*run) (long item);    /* execute one item; calls viol()/STAT()/sample() */
	void (*finish) (void);      /* once per child at end (optional) */
	int per_item_timeout_s;     /* 0 = default */
} Family;

/* registry (each h_*.c provides one or more) */
extern Family *g_families[];

/* options: --opt key=val ; returns def when absent */
const char *opt_str (const char *key, const char *def);
long opt_int (const char *key, long def);
extern int g_verbose;           /* --verbose (replay): print details to original stderr */
extern int g_thorough;
extern long g_seed;

/* records */
void viol (const char *prop, const char *sig, const char *fmt, ...) __attribute__ ((format (printf, 3, 4)));
void note (const char *kind, const char *fmt, ...) __attribute__ ((format (printf, 2, 3)));
void sample (const char *fmt, ...) __attribute__ ((format (printf, 1, 2)));  /* kept if this item was chosen as sample */
int sample_wanted (void);
void vlog (const char *fmt, ...) __attribute__ ((format (printf, 1, 2)));    /* verbose only, to original stderr */
long *stat_slot (const char *name);
#define STAT(name) do { static long *_s; if (!_s) _s = stat_slot (name); (*_s)++; } while (0)
#define STATN(name,k) do { static long *_s; if (!_s) _s = stat_slot (name); (*_s) += (k); } while (0)
void stat_dyn (const char *prefix, const char *suffix);  /* counter with computed name (slow path) */
void stat_max (const char *name, long v);
void distinct_add (const char *set, uint64_t h);          /* approximate distinct counter (exact up to table size) */

/* transcript hash (FNV-1a 64) of everything observable; log text is excluded by callers */
void tr_reset (void);
void tr_int (long v);
void tr_str (const char *s);
void tr_mpq (const mpq_t q);
void tr_bytes (const void *p, size_t n);
uint64_t tr_value (void);
uint64_t fnv1a (const void *p, size_t n, uint64_t h);

/* stdout/stderr capture (C20) */
void cap_begin (void);          /* redirect fds 1,2 to a memfd */
long cap_end (char *buf, size_t buflen);  /* restore; returns number of bytes that were written */
extern int g_errfd;             /* dup of the original stderr */

/* allocation balance (san builds): bytes currently allocated */
size_t mem_now (void);
int mem_tracking (void);
int leak_check_now (void);      /* LeakSanitizer recoverable check, 0 = none / not available */

/* scratch dir for files written by items (cwd of the process) */
extern char g_scratch[];

long current_item (void);
#endif
