/* Glue between the reference model and the library under test (mpq interface). */
#ifndef VERIF_QSX_H
#define VERIF_QSX_H
#include "QSopt_ex.h"
#include "ref.h"
#include "engine.h"

void qsx_start (void);          /* QSexactStart + log handler */
void qsx_stop (void);           /* QSexactClear */

/* log handler capture */
extern long g_log_count;        /* messages delivered to the handler since last reset */
extern SBuf g_logbuf;
void qsx_log_reset (void);
int qsx_log_has (const char *needle);

/* number helpers */
void q_set_str (mpq_t q, const char *s);      /* "p/q" or integer; canonicalises */
int q_is_pinf (const mpq_t q);
int q_is_ninf (const mpq_t q);

/* build routes */
#define ROUTE_LOAD 0            /* mpq_QSload_prob (falls back to ROUTE_ROWS when ranged rows exist) */
#define ROUTE_ROWS 1            /* create, new_col*, add_ranged_rows */
#define ROUTE_COLS 2            /* create, new_row*(+change_range/sense via add_ranged_row), add_col* */
#define ROUTE_ROWS1 3           /* create, new_col*, add_ranged_row one at a time */
mpq_QSprob qsx_build (const RefLP * L, int route, int explicit_zeros);
/* read the LP back through the query API; NULL + why on failure */
RefLP *qsx_readback (mpq_QSprob p, char *why, size_t wl);
/* full conformance check of every query function against the model; 0 = conforms */
int qsx_conform (mpq_QSprob p, const RefLP * model, int check_names, char *why, size_t wl);

/* solve configuration */
enum { ENTRY_EXACT = 0, ENTRY_PRIMAL = 1, ENTRY_DUAL = 2 };
typedef struct Cfg {
	int entry;      /* ENTRY_* */
	int algo;       /* PRIMAL_SIMPLEX / DUAL_SIMPLEX (exact driver only) */
	int ppr;        /* primal pricing QS_PRICE_P* */
	int dpr;        /* dual pricing */
	int scaling;    /* 1 / 0 */
	int display;    /* 0..3 */
	int prec;       /* 0 = leave, else QSexact_set_precision */
	int itlim;      /* 0 = default */
	int repeat;     /* 0 = once, 1 = solve twice */
} Cfg;
void cfg_default (Cfg * c);
int cfg_apply (mpq_QSprob p, const Cfg * c);
void cfg_str (const Cfg * c, char *buf, size_t bl);

typedef struct SolveObs {
	int rval, status;
	int n, m;
	mpq_t *x;                     /* out-param x (n+m) */
	mpq_t *y;                     /* out-param y (m) */
	QSbasis *basis;               /* basis after the solve (mpq_QSget_basis) or NULL */
	int rv_status, st_get;
	int rv_objval, rv_x, rv_pi, rv_rc, rv_slack, rv_sol;
	mpq_t objval, solval;
	mpq_t *ax, *api, *arc, *aslack;
	mpq_t *sx, *spi, *sslack, *src;
	int path;                     /* bit0 dbl tried, bit1 mpf tried, bit2 rational retest, bit3 reuse basis */
	int mpf_levels;
	long log_msgs;
} SolveObs;
SolveObs *obs_new (int n, int m);
void obs_free (SolveObs * o);
/* run one solve with entry/ algo of cfg (cfg already applied); warm = basis to pass / load or NULL */
void qsx_solve (mpq_QSprob p, const Cfg * c, QSbasis * warm, SolveObs * o);
/* C01 oracle on an OPTIMAL observation.  L = LP as read back.  0 ok */
int qsx_check_optimal (const RefLP * L, const SolveObs * o, int exact_entry, char *why, size_t wl);
/* record everything observable of o into the transcript */
void obs_transcript (const SolveObs * o);
QSbasis *qsx_basis_dup (const QSbasis * b);
const char *status_name (int st);
#endif
