/* E-INST: enumerated LP instances x configuration lattice.
 * Decides C01 (optimality certificate), C02 (Farkas certificate), C03 (truth),
 * C04 (independence of configuration).  One item = one LP instance; all
 * configurations of the selected set are executed inside the item. */
#include <stdlib.h>
#include <string.h>
#include "lpfam.h"

static const char *o_fam, *o_cfg;
static int is_T, o_leak;
static int ncfg;
static int o_maxcfg;

static void lp_init (void)
{
	o_fam = opt_str ("fam", "S0c");
	o_cfg = opt_str ("cfg", "default");
	is_T = !strcmp (o_fam, "T");
	o_leak = (int) opt_int ("leak", 0);
	if (!is_T) lpfam_select (o_fam);
	ncfg = xcfg_set_count (o_cfg);
	o_maxcfg = (int) opt_int ("maxcfg", 0);
	qsx_start ();
}
static long lp_count (void) { return is_T ? tfam_count () : lpfam_count (); }

static QSbasis *slack_basis (const RefLP * L)
{
	QSbasis *b = calloc (1, sizeof *b);
	b->nstruct = L->n; b->nrows = L->m;
	b->cstat = malloc ((size_t) L->n + 1); b->rstat = malloc ((size_t) L->m + 1);
	for (int c = 0; c < L->n; c++)
		b->cstat[c] = !L->loinf[c] ? QS_COL_BSTAT_LOWER : !L->upinf[c] ? QS_COL_BSTAT_UPPER : QS_COL_BSTAT_FREE;
	for (int r = 0; r < L->m; r++) b->rstat[r] = QS_ROW_BSTAT_BASIC;
	return b;
}
/* basis of a default exact solve of L (or of L with negated objective); NULL unless OPTIMAL */
static QSbasis *aux_basis (const RefLP * L, int negate)
{
	RefLP *M = ref_clone (L);
	if (negate) for (int c = 0; c < M->n; c++) mpq_neg (M->obj[c], M->obj[c]);
	mpq_QSprob p = qsx_build (M, ROUTE_LOAD, 0);
	QSbasis *res = NULL;
	if (p) {
		QSbasis *b = calloc (1, sizeof *b);
		int st = 0;
		if (QSexact_solver (p, NULL, NULL, b, DUAL_SIMPLEX, &st) == 0 && st == QS_LP_OPTIMAL && b->nstruct == M->n && b->nrows == M->m && (b->cstat || !M->n)) res = b;
		else mpq_QSfree_basis (b);
		mpq_QSfree_prob (p);
	}
	ref_free (M);
	return res;
}

static void lp_desc (const RefLP * L, const XCfg * x, char *buf, size_t bl)
{
	SBuf b; sb_init (&b); ref_dump (&b, L, 0);
	char cs[400]; xcfg_str (x, cs, sizeof cs);
	snprintf (buf, bl, "LP{%s} cfg{%s}", b.s, cs);
	sb_free (&b);
}

static void lp_run (long item)
{
	char label[128] = "", why[600], desc[6000];
	RefLP *L = is_T ? tfam_decode (item, label, sizeof label) : lpfam_decode (item);
	if (!L) { STAT ("skipped_noncanonical"); return; }
	STAT ("instances");
	int wf = ref_wellformed (L);
	if (!wf) STAT ("instances_illformed");
	Truth *T = ref_solve (L);
	if (T->selfcheck_failed) { STAT ("ref_selfcheck_failed"); viol ("HARNESS", "ref-selfcheck", "reference solver failed its own witness check"); }
	if (T->gaveup) STAT ("ref_gaveup");
	stat_max ("ref_peak_ineqs", T->peak_ineqs);
	switch (T->status) {
	case TRUTH_OPTIMAL: STAT ("truth_OPTIMAL"); break;
	case TRUTH_INFEASIBLE: STAT ("truth_INFEASIBLE"); break;
	case TRUTH_UNBOUNDED: STAT ("truth_UNBOUNDED"); break;
	default: STAT ("truth_UNKNOWN"); break;
	}
	int nontrivial = 0;
	int have0 = 0, st0 = 0; mpq_t v0; mpq_init (v0);
	int limit = o_maxcfg && o_maxcfg < ncfg ? o_maxcfg : ncfg;
	for (int k = 0; k < limit; k++) {
		XCfg x; xcfg_get (o_cfg, k, &x);
		QSexact_set_precision (128);
		mpq_QSprob p = qsx_build (L, x.route, x.zeros);
		if (!p) { lp_desc (L, &x, desc, sizeof desc); viol ("C06", "build-failed", "could not build a valid problem: %s", desc); continue; }
		if (cfg_apply (p, &x.c)) { lp_desc (L, &x, desc, sizeof desc); viol ("C07", "setparam-valid-rejected", "valid parameter rejected: %s", desc); }
		QSbasis *warm = NULL;
		if (x.warm == 1) warm = aux_basis (L, 0);
		else if (x.warm == 2) warm = slack_basis (L);
		else if (x.warm == 3) warm = aux_basis (L, 1);
		if (x.warm) { if (warm) STAT ("warm_used"); else STAT ("warm_unavailable"); }
		if (x.c.prec) QSexact_set_precision ((unsigned) x.c.prec);
		SolveObs *o = obs_new (L->n, L->m), *o2 = NULL;
		qsx_log_reset ();
		cap_begin ();
		qsx_solve (p, &x.c, warm, o);
		if (x.c.repeat) { o2 = obs_new (L->n, L->m); qsx_solve (p, &x.c, NULL, o2); }
		char capbuf[300];
		long capn = cap_end (capbuf, sizeof capbuf);
		STAT ("executions");
		obs_transcript (o); if (o2) obs_transcript (o2);
		if (capn) { lp_desc (L, &x, desc, sizeof desc); viol ("C20", "solve-writes-stdio", "%ld bytes written to stdout/stderr during solve (\"%.80s\"): %s", capn, capbuf, desc); }
		/* LP as currently defined through the API */
		RefLP *R = qsx_readback (p, why, sizeof why);
		if (!R) { lp_desc (L, &x, desc, sizeof desc); viol ("C06", "readback-failed", "%s: %s", why, desc); }
		else if (ref_cmp (L, R, 1, why, sizeof why)) { lp_desc (L, &x, desc, sizeof desc); viol ("C06", "readback-differs", "problem read back differs from problem loaded (%s): %s", why, desc); }
		const RefLP *Lc = R ? R : L;
		int exact = x.c.entry == ENTRY_EXACT;
		const char *en = exact ? "exact" : x.c.entry == ENTRY_PRIMAL ? "primal" : "dual";
		{
			char nm[64]; snprintf (nm, sizeof nm, "status_%s_%s", en, o->rval ? "ERR" : status_name (o->status)); stat_dyn (nm, "");
		}
		if (exact) {
			if ((o->path & 6) == 0) STAT ("path_dbl_direct");
			if (o->path & 4) STAT ("path_rational_retest");
			if (o->path & 2) STAT ("path_mpf");
			if (o->path & 8) STAT ("path_reuse_basis");
			stat_max ("mpf_levels", o->mpf_levels);
		}
		if (o->basis && !o->rval) {
			int it = 0; mpq_QSget_itcnt (p, 0, 0, 0, 0, &it);
			if (it > 0) nontrivial = 1;
			stat_max ("rational_simplex_iters", it);
		}
		if (o->path & 6) nontrivial = 1;
		for (int r = 0; r < L->m && !nontrivial; r++) for (int c = 0; c < L->n; c++) if (mpq_sgn (REF_A (L, r, c))) { nontrivial = 1; break; }
		/* ---- C01 */
		for (int rep = 0; rep < 2; rep++) {
			SolveObs *oo = rep ? o2 : o;
			if (!oo) continue;
			if (oo->rval == 0 && oo->status == QS_LP_OPTIMAL) {
				STAT ("c01_checked");
				if (qsx_check_optimal (Lc, oo, exact, why, sizeof why)) {
					lp_desc (L, &x, desc, sizeof desc);
					viol ("C01", exact ? "exact-optimal-cert" : wf ? "simplex-optimal-cert" : "simplex-optimal-crossed-bounds", "OPTIMAL without exact certificate (%s)%s: %s", why, rep ? " [second solve]" : "", desc);
				}
				if (T->status == TRUTH_OPTIMAL && !mpq_equal (oo->objval, T->val)) {
					lp_desc (L, &x, desc, sizeof desc);
					char *a = q_str (oo->objval), *b = q_str (T->val);
					if (exact) viol ("C03", "value-differs", "reported optimum %s but the true optimum is %s: %s", a, b, desc);
					if (k > 0 || !exact) viol ("C04", "value-differs", "reported optimum %s but the true optimum is %s: %s", a, b, desc);
					free (a); free (b);
				}
			}
			/* ---- C02 */
			if (exact && oo->rval == 0 && oo->status == QS_LP_INFEASIBLE) {
				STAT ("c02_checked");
				SF *S = sf_from_ref (Lc);
				int sg = 0;
				if (ofarkas_check (S, oo->y, &sg, why, sizeof why)) {
					lp_desc (L, &x, desc, sizeof desc);
					viol ("C02", "farkas-invalid", "INFEASIBLE but returned multipliers prove nothing (%s): %s", why, desc);
				} else if (sg > 0) STAT ("farkas_sign_pos"); else STAT ("farkas_sign_neg");
				sf_free (S);
				if (oo->rv_status || oo->st_get != QS_LP_INFEASIBLE) {
					lp_desc (L, &x, desc, sizeof desc);
					viol ("C02", "status-mismatch", "solver returned INFEASIBLE but get_status says %s: %s", status_name (oo->st_get), desc);
				}
			}
			if (oo->rval == 0 && oo->status == QS_LP_INFEASIBLE && (T->status == TRUTH_OPTIMAL || T->status == TRUTH_UNBOUNDED)) {
				int known_dual = (x.c.entry == ENTRY_DUAL && T->status == TRUTH_UNBOUNDED);
				lp_desc (L, &x, desc, sizeof desc);
				SBuf b; sb_init (&b); for (int c = 0; c < L->n; c++) { sb_mpq (&b, T->x[c]); sb_printf (&b, " "); }
				viol (exact ? "C02" : "C04", known_dual ? "dual-on-unbounded" : "infeasible-but-feasible", "INFEASIBLE reported but x=(%s) is feasible: %s", b.s, desc);
				sb_free (&b);
			}
		}
		/* ---- C03 / C04 : truth */
		if (wf && T->status != TRUTH_UNKNOWN && xcfg_is_default_limits (&x)) {
			int want = T->status == TRUTH_OPTIMAL ? QS_LP_OPTIMAL : T->status == TRUTH_INFEASIBLE ? QS_LP_INFEASIBLE : QS_LP_UNBOUNDED;
			for (int rep = 0; rep < 2; rep++) {
				SolveObs *oo = rep ? o2 : o;
				if (!oo) continue;
				STAT ("c03_checked");
				if (oo->rval != 0 || oo->status != want) {
					if (oo->rval == 0 && oo->status == QS_LP_INFEASIBLE && want != QS_LP_INFEASIBLE) continue;   /* reported above */
					lp_desc (L, &x, desc, sizeof desc);
					char sig[96];
					snprintf (sig, sizeof sig, "%s-truth-%s-got-%s", en, status_name (want), oo->rval ? "ERR" : status_name (oo->status));
					/* C03 speaks of the exact solver with default limits, however it is driven; C04 of every way of driving the library */
					if (exact) viol ("C03", sig, "truth is %s but %s returned rval=%d status=%s%s: %s", status_name (want), en, oo->rval, status_name (oo->status), rep ? " [second solve]" : "", desc);
					if (k > 0 || !exact) viol ("C04", sig, "truth is %s but %s returned rval=%d status=%s%s: %s", status_name (want), en, oo->rval, status_name (oo->status), rep ? " [second solve]" : "", desc);
				}
			}
			/* ---- C04: agreement with the default configuration */
			if (k == 0) { have0 = 1; st0 = o->rval ? -1 : o->status; if (st0 == QS_LP_OPTIMAL) mpq_set (v0, o->objval); }
			else if (have0) {
				STAT ("c04_compared");
				int st = o->rval ? -1 : o->status;
				if (st != st0 && !(st == QS_LP_INFEASIBLE && T->status != TRUTH_INFEASIBLE) && st == (T->status == TRUTH_OPTIMAL ? QS_LP_OPTIMAL : T->status == TRUTH_INFEASIBLE ? QS_LP_INFEASIBLE : QS_LP_UNBOUNDED)) {
					/* this config is right and default was wrong: already reported under k == 0 */
				}
				if (st == QS_LP_OPTIMAL && st0 == QS_LP_OPTIMAL && !mpq_equal (v0, o->objval)) {
					lp_desc (L, &x, desc, sizeof desc);
					viol ("C04", "value-differs-across-configs", "optimal value differs from the default configuration's: %s", desc);
				}
			}
			if (o2 && (o2->rval != o->rval || o2->status != o->status || (o->status == QS_LP_OPTIMAL && !o->rval && !mpq_equal (o->objval, o2->objval)))) {
				lp_desc (L, &x, desc, sizeof desc);
				viol ("C04", "repeat-differs", "second solve of the same object returned rval=%d status=%s, first rval=%d status=%s: %s", o2->rval, status_name (o2->status), o->rval, status_name (o->status), desc);
			}
		}
		/* ---- C12: a basis handed back with OPTIMAL */
		if (o->rval == 0 && o->status == QS_LP_OPTIMAL && wf) {
			if (!o->basis || o->basis->nstruct != L->n || o->basis->nrows != L->m) {
				if (exact || o->basis) { lp_desc (L, &x, desc, sizeof desc); viol ("C12", "returned-basis-missing", "OPTIMAL but no basis of the right size was handed back: %s", desc); }
			} else {
				STAT ("c12_returned_bases");
				int nb = 0;
				for (int j = 0; j < L->n; j++) if (o->basis->cstat[j] == QS_COL_BSTAT_BASIC) nb++;
				for (int i = 0; i < L->m; i++) if (o->basis->rstat[i] == QS_ROW_BSTAT_BASIC) nb++;
				if (nb != L->m) { lp_desc (L, &x, desc, sizeof desc); viol ("C12", "returned-basis-count", "returned basis has %d basic variables for %d rows (cstat=%.*s rstat=%.*s): %s", nb, L->m, L->n, o->basis->cstat, L->m, o->basis->rstat, desc); }
				else {
					SF *S = sf_from_ref (Lc);
					BasisSol *B = obasis_solve (S, o->basis->cstat, o->basis->rstat);
					if (B->valid && !B->singular) {
						STAT ("c12_returned_nonsingular");
						int same = 1;
						for (int j = 0; j < L->n && same; j++) if (!mpq_equal (B->z[j], o->ax[j])) same = 0;
						for (int i = 0; i < L->m && same; i++) if (!mpq_equal (B->z[L->n + i], o->aslack[i])) same = 0;
						if (!B->pfeas || !B->dfeas || !same || !mpq_equal (B->pobj, o->objval)) {
							lp_desc (L, &x, desc, sizeof desc);
							viol ("C12", "returned-basis-not-optimal", "exact basic solution of the returned basis (cstat=%.*s rstat=%.*s) is primal %s, dual %s, %s the reported x, objective %s: %s", L->n, o->basis->cstat, L->m, o->basis->rstat, B->pfeas ? "feasible" : "INFEASIBLE", B->dfeas ? "feasible" : "INFEASIBLE", same ? "equals" : "DIFFERS from", mpq_equal (B->pobj, o->objval) ? "equal" : "DIFFERENT", desc);
						}
						/* the verdict function and a warm-started solve must confirm it */
						mpq_QSprob p2 = qsx_build (L, ROUTE_LOAD, 0);
						if (p2) {
							char res = 9;
							int rv = QSexact_basis_optimalstatus (p2, o->basis, &res, 1);
							if (rv || res != 1) { lp_desc (L, &x, desc, sizeof desc); viol ("C12", "returned-basis-not-confirmed", "QSexact_basis_optimalstatus gives rv=%d result=%d for the basis returned with OPTIMAL: %s", rv, res, desc); }
							mpq_QSfree_prob (p2);
							p2 = qsx_build (L, ROUTE_LOAD, 0);
							if (p2) {
								QSbasis *wb = qsx_basis_dup (o->basis);
								int st2 = 0, rv2 = QSexact_solver (p2, NULL, NULL, wb, DUAL_SIMPLEX, &st2);
								mpq_t v2; mpq_init (v2);
								if (rv2 || st2 != QS_LP_OPTIMAL || mpq_QSget_objval (p2, &v2) || !mpq_equal (v2, o->objval)) { lp_desc (L, &x, desc, sizeof desc); viol ("C12", "returned-basis-warmstart", "warm-started solve from the returned basis gives rv=%d status=%s: %s", rv2, status_name (st2), desc); }
								mpq_clear (v2);
								mpq_QSfree_basis (wb);
								mpq_QSfree_prob (p2);
							}
						}
					} else STAT ("c12_returned_singular_or_invalid");
					obasis_free (B, S);
					sf_free (S);
				}
			}
		}
		if (k == 0 && sample_wanted ()) {
			lp_desc (L, &x, desc, sizeof desc);
			sample ("%s%s%s -> rval=%d status=%s truth=%s", label, label[0] ? ": " : "", desc, o->rval, status_name (o->status), T->status == TRUTH_OPTIMAL ? "OPTIMAL" : T->status == TRUTH_INFEASIBLE ? "INFEASIBLE" : T->status == TRUTH_UNBOUNDED ? "UNBOUNDED" : "UNKNOWN");
		}
		if (g_verbose) { lp_desc (L, &x, desc, sizeof desc); vlog ("cfg %d: %s -> rval=%d status=%s path=%d\n", k, desc, o->rval, status_name (o->status), o->path); }
		if (R) ref_free (R);
		obs_free (o); obs_free (o2);
		if (warm) mpq_QSfree_basis (warm);
		mpq_QSfree_prob (p);
	}
	/* C18 on the solve paths: build ; QSexact_solver ; free must return every byte (second round, so that lazily created
	 * global tables of the first round do not count); only on builds that can count allocated bytes */
	if (o_leak && mem_tracking ()) {
		for (int algo = 0; algo < 2; algo++) {
			size_t m0 = 0, m1 = 0; int st = 0, rv = 0;
			for (int round = 0; round < 2; round++) {
				m0 = mem_now ();
				mpq_QSprob p = qsx_build (L, ROUTE_LOAD, 0);
				if (!p) break;
				rv = QSexact_solver (p, NULL, NULL, NULL, algo ? PRIMAL_SIMPLEX : DUAL_SIMPLEX, &st);
				mpq_QSfree_prob (p);
				m1 = mem_now ();
			}
			STAT ("leak_probes");
			if (m1 != m0) {
				XCfg x0; xcfg_default (&x0); lp_desc (L, &x0, desc, sizeof desc);
				viol ("C18", "lp-solve-leak", "%ld bytes remain allocated after build ; QSexact_solver(%s) -> rval=%d status=%s ; free: %s", (long) m1 - (long) m0, algo ? "PRIMAL" : "DUAL", rv, status_name (st), desc);
			}
		}
	}
	if (nontrivial) STAT ("instances_nontrivial");
	mpq_clear (v0);
	truth_free (T);
	ref_free (L);
}
static void lp_finish (void) { qsx_stop (); }

Family fam_lp = { "lp", "LP instance families x configuration lattice (C01-C04); --opt fam=S0|S0c|S1|S3|SX|T.. --opt cfg=default|k1|k2|full", lp_init, lp_count, lp_run, lp_finish, 180 };
