#include <stdlib.h>
#include <string.h>
#include "lpfam.h"

#define P2_60_1 "1152921504606846977"
#define P2_M70 "1/1180591620717411303424"
#define E30 "1000000000000000000000000000000"

static const Alphabet alphabets[] = {
	{ "S0", 1, 2, 0, 2, 3, { "-1", "0", "1" }, 3, { "-1", "0", "2" }, 3, { "L", "G", "E" },
		4, { "0:inf", "-inf:inf", "0:1", "-inf:0" }, 3, { "-1", "0", "1" }, 0 },
	{ "S0k", 1, 2, 0, 2, 3, { "-1", "0", "1" }, 3, { "-1", "0", "2" }, 3, { "L", "G", "E" },
		4, { "0:inf", "-inf:inf", "0:1", "-inf:0" }, 3, { "-1", "0", "1" }, 1 },
	{ "S0q1", 1, 2, 0, 1, 3, { "-1", "0", "1" }, 2, { "0", "1" }, 3, { "L", "G", "E" },
		4, { "0:inf", "-inf:inf", "0:1", "-inf:1" }, 3, { "-1", "0", "1" }, 1 },
	{ "S1q", 1, 2, 1, 1, 3, { "-1", "0", "1" }, 2, { "0", "1" }, 3, { "L", "E", "R1" },
		4, { "0:inf", "-inf:inf", "1:1", "-1:2" }, 2, { "-1", "1" }, 1 },
	{ "SN1", 1, 2, 1, 1, 7, { "0", "1", "-1", "1/3", "9007199254740993", "@tiny3", E30 }, 3, { "0", "1/3", "9007199254740993" }, 3, { "L", "E", "R1/3" },
		3, { "0:inf", "-inf:inf", "1/3:" E30 }, 3, { "1", "1/3", "-9007199254740993" }, 1 },
	{ "S0mk", 1, 2, 1, 1, 3, { "-1", "0", "1" }, 2, { "0", "1" }, 3, { "L", "G", "E" },
		3, { "0:inf", "-inf:inf", "0:1" }, 2, { "-1", "1" }, 1 },
	{ "S0q", 1, 2, 0, 2, 3, { "-1", "0", "1" }, 2, { "0", "1" }, 3, { "L", "G", "E" },
		2, { "0:inf", "-inf:inf" }, 2, { "-1", "1" }, 1 },
	{ "S0c", 1, 2, 0, 2, 3, { "-1", "0", "1" }, 2, { "0", "1" }, 3, { "L", "G", "E" },
		3, { "0:inf", "-inf:inf", "0:1" }, 3, { "-1", "0", "1" }, 1 },
	{ "S0m", 1, 2, 1, 1, 3, { "-1", "0", "1" }, 3, { "-1", "0", "2" }, 3, { "L", "G", "E" },
		4, { "0:inf", "-inf:inf", "0:1", "-inf:0" }, 3, { "-1", "0", "1" }, 0 },
	{ "S1", 1, 2, 0, 2, 4, { "-1", "0", "1", "2" }, 3, { "-1", "0", "2" }, 6, { "L", "G", "E", "R0", "R1", "R5/2" },
		6, { "0:inf", "-inf:inf", "0:1", "-inf:0", "1:1", "-1:2" }, 3, { "-1", "0", "1" }, 1 },
	{ "S1r", 1, 2, 1, 2, 3, { "-1", "0", "1" }, 2, { "0", "1" }, 6, { "L", "G", "E", "R0", "R1", "R5/2" },
		4, { "0:inf", "-inf:inf", "1:1", "-1:2" }, 3, { "-1", "0", "1" }, 1 },
	{ "Sillq", 1, 2, 0, 1, 3, { "-1", "0", "1" }, 2, { "0", "1" }, 4, { "L", "G", "E", "R1" },
		3, { "0:inf", "2:1", "-inf:inf" }, 2, { "-1", "1" }, 1 },
	{ "Sill", 1, 2, 0, 2, 3, { "-1", "0", "1" }, 2, { "0", "1" }, 4, { "L", "G", "E", "R1" },
		3, { "0:inf", "2:1", "-inf:inf" }, 3, { "-1", "0", "1" }, 1 },
	{ "S3", 3, 3, 1, 3, 3, { "0", "1", "-1" }, 2, { "0", "1" }, 3, { "L", "G", "E" },
		2, { "0:inf", "-inf:inf" }, 2, { "1", "-1" }, 1 },
	{ "S3b", 3, 3, 1, 2, 3, { "0", "1", "-1" }, 2, { "0", "1" }, 3, { "L", "G", "E" },
		3, { "0:inf", "-inf:inf", "0:1" }, 3, { "-1", "0", "1" }, 1 },
	{ "SX", 1, 2, 1, 2, 6, { "0", "1", "1/3", "-7/2", P2_60_1, P2_M70 }, 4, { "0", "1", "1/3", E30 }, 3, { "L", "G", "E" },
		2, { "0:inf", "-inf:inf" }, 2, { "1", "-1" }, 1 },
	/* bound-shape-rich single-row family: lower-only non-zero, upper-only negative, negative box, fixed at zero / non-zero */
	{ "Sbq", 1, 2, 1, 1, 3, { "-1", "0", "1" }, 2, { "-1", "1" }, 4, { "L", "G", "E", "R2" },
		6, { "0:inf", "2:inf", "-inf:-1", "-3:-1", "0:0", "1:1" }, 2, { "-1", "1" }, 1 },
	{ "SXq", 2, 2, 2, 2, 4, { "0", "1", P2_60_1, P2_M70 }, 2, { "1", E30 }, 2, { "L", "G" },
		2, { "0:inf", "-inf:inf" }, 2, { "1", "-1" }, 1 },
};
static const Alphabet *AL;
static void qnum (mpq_t q, const char *s)
{
	if (!strcmp (s, "@tiny3")) { mpq_set_ui (q, 3, 1); mpq_div_2exp (q, q, 1074); return; }   /* 3 * 2^-1074: a denormal double */
	q_set_str (q, s);
}
/* shape table: cumulative counts per (n,m) */
typedef struct { int n, m; long base, cnt; } Shape;
static Shape shapes[32]; static int nshapes; static long total;

static long ipow (long b, int e) { long r = 1; while (e-- > 0) r *= b; return r; }
/* family CP: a deterministic catalogue of 240 covering (min c x, A x >= b) and packing (max c x, A x <= b) LPs with 3..5 rows and
 * 4..8 non-negative columns, small integer data from a fixed linear congruential sequence: large enough for the pricing rules to
 * differ in their pivots, small enough for tens of thousands of solves */
static int is_cp;
#define CP_COUNT 240
static unsigned cp_next (unsigned *st) { *st = *st * 1103515245u + 12345u; return (*st >> 16) & 0x7fff; }
static RefLP *cp_decode (long idx)
{
	int pack = (int) (idx % 2), m = 3 + (int) ((idx / 2) % 3), n = 4 + (int) ((idx / 6) % 5);
	unsigned st = 2463534242u + (unsigned) idx * 2654435761u;
	RefLP *L = ref_new (pack ? REF_MAX : REF_MIN);
	mpq_t a, z; mpq_init (a); mpq_init (z);
	char nm[16];
	for (int c = 0; c < n; c++) { snprintf (nm, sizeof nm, "x%d", c); mpq_set_ui (a, 1 + cp_next (&st) % 9, 1); ref_add_col (L, a, z, 0, z, 1, nm); }
	if ((idx / 30) % 2) {
		/* every other block of 30: one column fixed at 1, one boxed in [0,2] (fixed and boxed non-basic columns in LPs with >= 3 rows) */
		mpq_set_ui (L->lo[1], 1, 1); mpq_set_ui (L->up[1], 1, 1); L->upinf[1] = 0;
		mpq_set_ui (L->up[2], 2, 1); L->upinf[2] = 0;
	}
	for (int r = 0; r < m; r++) {
		snprintf (nm, sizeof nm, "c%d", r);
		mpq_set_ui (a, (pack ? 6 : 3) + cp_next (&st) % 12, 1);
		int row = ref_add_row (L, pack ? 'L' : 'G', a, NULL, nm);
		for (int c = 0; c < n; c++) {
			unsigned v = cp_next (&st) % 6;       /* 0 0 1 2 3 1: about a third of the entries are zero */
			unsigned e = v < 2 ? 0 : v == 5 ? 1 : v - 1;
			if (r == 0 && e == 0) e = 1;            /* row 0 is dense: every packing column is bounded, every covering row can be met */
			mpq_set_ui (REF_A (L, row, c), e, 1);
		}
	}
	/* every covering row needs a non-zero: put one on the diagonal */
	for (int r = 0; r < m; r++) if (!mpq_sgn (REF_A (L, r, r % n))) mpq_set_ui (REF_A (L, r, r % n), 1, 1);
	mpq_clear (a); mpq_clear (z);
	return L;
}
void lpfam_select (const char *name)
{
	AL = NULL;
	is_cp = !strcmp (name, "CP");
	if (is_cp) { total = CP_COUNT; return; }
	for (size_t i = 0; i < sizeof alphabets / sizeof alphabets[0]; i++) if (!strcmp (alphabets[i].name, name)) AL = &alphabets[i];
	if (!AL) { fprintf (stderr, "unknown LP family %s\n", name); exit (2); }
	nshapes = 0; total = 0;
	for (int n = AL->nmin; n <= AL->nmax; n++)
		for (int m = AL->mmin; m <= AL->mmax; m++) {
			Shape *s = &shapes[nshapes++];
			s->n = n; s->m = m; s->base = total;
			s->cnt = 2 * ipow (AL->nobj, n) * ipow (AL->nbnd, n) * ipow ((long) AL->nkind * AL->nrhs * ipow (AL->ncoef, n), m);
			total += s->cnt;
		}
}
const char *lpfam_name (void) { return AL->name; }
long lpfam_count (void) { return total; }

static void parse_bound (const char *s, mpq_t lo, int *loinf, mpq_t up, int *upinf)
{
	char buf[128]; strncpy (buf, s, sizeof buf - 1); buf[sizeof buf - 1] = 0;
	char *c = strchr (buf, ':'); *c = 0;
	*loinf = !strcmp (buf, "-inf"); *upinf = !strcmp (c + 1, "inf");
	if (!*loinf) q_set_str (lo, buf);
	if (!*upinf) q_set_str (up, c + 1);
}
RefLP *lpfam_decode (long idx)
{
	if (is_cp) return cp_decode (idx);
	int si = 0;
	while (si + 1 < nshapes && idx >= shapes[si + 1].base) si++;
	const Shape *sh = &shapes[si];
	long r = idx - sh->base;
	int n = sh->n, m = sh->m;
	int dobj[4], dbnd[4], dkind[4], drhs[4], dcoef[4][4];
	int sense = (int) (r % 2); r /= 2;
	for (int c = 0; c < n; c++) { dobj[c] = (int) (r % AL->nobj); r /= AL->nobj; }
	for (int c = 0; c < n; c++) { dbnd[c] = (int) (r % AL->nbnd); r /= AL->nbnd; }
	for (int i = 0; i < m; i++) {
		dkind[i] = (int) (r % AL->nkind); r /= AL->nkind;
		drhs[i] = (int) (r % AL->nrhs); r /= AL->nrhs;
		for (int c = 0; c < n; c++) { dcoef[i][c] = (int) (r % AL->ncoef); r /= AL->ncoef; }
	}
	if (AL->canonical) {
		/* rows non-decreasing by (kind, rhs, coefs); columns non-decreasing by (obj, bnd, coefs down) */
		for (int i = 0; i + 1 < m; i++) {
			int c = dkind[i] - dkind[i + 1];
			if (!c) c = drhs[i] - drhs[i + 1];
			for (int k = 0; k < n && !c; k++) c = dcoef[i][k] - dcoef[i + 1][k];
			if (c > 0) return NULL;
		}
		for (int j = 0; j + 1 < n; j++) {
			int c = dobj[j] - dobj[j + 1];
			if (!c) c = dbnd[j] - dbnd[j + 1];
			for (int k = 0; k < m && !c; k++) c = dcoef[k][j] - dcoef[k][j + 1];
			if (c > 0) return NULL;
		}
	}
	RefLP *L = ref_new (sense ? REF_MAX : REF_MIN);
	mpq_t a, b, z; mpq_init (a); mpq_init (b); mpq_init (z);
	char nm[16];
	for (int c = 0; c < n; c++) {
		int li, ui; qnum (z, AL->obj[dobj[c]]);
		parse_bound (AL->bnd[dbnd[c]], a, &li, b, &ui);
		snprintf (nm, sizeof nm, "x%d", c);
		ref_add_col (L, z, a, li, b, ui, nm);
	}
	for (int i = 0; i < m; i++) {
		const char *k = AL->kind[dkind[i]];
		qnum (a, AL->rhs[drhs[i]]);
		mpq_set_ui (b, 0, 1);
		if (k[0] == 'R') q_set_str (b, k + 1);
		snprintf (nm, sizeof nm, "c%d", i);
		ref_add_row (L, k[0], a, b, nm);
		for (int c = 0; c < n; c++) qnum (REF_A (L, i, c), AL->coef[dcoef[i][c]]);
	}
	mpq_clear (a); mpq_clear (b); mpq_clear (z);
	return L;
}

/* ------------------------------------------------------------ targeted family T */
static RefLP *mk (int objsense, int n, const char **obj, const char **bnds)
{
	RefLP *L = ref_new (objsense);
	mpq_t a, b, z; mpq_init (a); mpq_init (b); mpq_init (z);
	char nm[16];
	for (int c = 0; c < n; c++) {
		int li = 0, ui = 1; q_set_str (z, obj[c]); mpq_set_ui (a, 0, 1);
		if (bnds) parse_bound (bnds[c], a, &li, b, &ui);
		snprintf (nm, sizeof nm, "x%d", c);
		ref_add_col (L, z, a, li, b, ui, nm);
	}
	mpq_clear (a); mpq_clear (b); mpq_clear (z);
	return L;
}
static void addrow (RefLP * L, char sense, const char *rhs, const char *range, const char **coefs)
{
	mpq_t a, b; mpq_init (a); mpq_init (b);
	char nm[16]; snprintf (nm, sizeof nm, "c%d", L->m);
	q_set_str (a, rhs); if (range) q_set_str (b, range);
	int r = ref_add_row (L, sense, a, b, nm);
	for (int c = 0; c < L->n; c++) q_set_str (REF_A (L, r, c), coefs[c]);
	mpq_clear (a); mpq_clear (b);
}
static void q_pow2 (mpq_t q, int e) { mpq_set_ui (q, 1, 1); if (e >= 0) mpq_mul_2exp (q, q, (unsigned) e); else mpq_div_2exp (q, q, (unsigned) -e); }
static void perm_k (int k, int n, int *out)
{
	/* k-th permutation of 0..n-1 (factoradic) */
	int pool[8]; for (int i = 0; i < n; i++) pool[i] = i;
	for (int i = 0; i < n; i++) { int f = 1; for (int j = 2; j < n - i; j++) f *= j; int d = k / f; k %= f; out[i] = pool[d]; for (int j = d; j < n - i - 1; j++) pool[j] = pool[j + 1]; }
}
static const int KJ[7] = { 10, 30, 52, 53, 60, 80, 200 };
#define T_NEAR (7 * 15 * 3)
#define T_KM (6 * 2)
#define T_BEALE 144
#define T_DEGEN (4 * 4 * 2)
#define T_MISC 24
#define T_SCALE (41 * 2 * 2)
#define T_NEQ (7 * 3 * 3 * 3)
#define T_TINY (4 * 2 * 3 * 2 + 4 * 2)
long tfam_count (void) { return T_NEAR + T_KM + T_BEALE + T_DEGEN + T_MISC + T_SCALE + T_NEQ + T_TINY; }
RefLP *tfam_decode (long idx, char *label, size_t ll)
{
	RefLP *L = NULL;
	long tscale = opt_int ("tscale", 40);
	mpq_t e, d, t; mpq_init (e); mpq_init (d); mpq_init (t);
	if (idx < T_NEAR) {
		/* x + y <= 1 ; (1+2^-k) x + y >= 1 + 2^-k - delta ; delta in {+2^-j (feasible), 0 (single point), -2^-j (infeasible)} */
		int o = (int) (idx % 3), v = (int) ((idx / 3) % 15), k = KJ[idx / 45];
		static const char *objs[3][2] = { { "1", "0" }, { "0", "1" }, { "-1", "-1" } };
		L = mk (REF_MIN, 2, objs[o], NULL);
		const char *c1[2] = { "1", "1" };
		addrow (L, 'L', "1", NULL, c1);
		addrow (L, 'G', "0", NULL, c1);
		q_pow2 (e, -k); mpq_set_ui (t, 1, 1); mpq_add (t, t, e);
		mpq_set (REF_A (L, 1, 0), t);
		mpq_set (L->rhs[1], t);
		if (v < 7) { q_pow2 (d, -KJ[v]); mpq_sub (L->rhs[1], L->rhs[1], d); }
		else if (v > 7) { q_pow2 (d, -KJ[v - 8]); mpq_add (L->rhs[1], L->rhs[1], d); }
		snprintf (label, ll, "near-parallel k=%d variant=%d obj=%d", k, v, o);
	} else if ((idx -= T_NEAR) < T_KM) {
		int dim = (int) (idx / 2) + 1, mx = (int) (idx % 2);
		const char *zeros[8] = { "0", "0", "0", "0", "0", "0", "0", "0" };
		L = mk (mx ? REF_MAX : REF_MIN, dim, zeros, NULL);
		for (int j = 0; j < dim; j++) { q_pow2 (L->obj[j], dim - 1 - j); if (!mx) mpq_neg (L->obj[j], L->obj[j]); }
		for (int j = 0; j < dim; j++) {
			addrow (L, 'L', "0", NULL, zeros);
			for (int i = 0; i < j; i++) q_pow2 (REF_A (L, j, i), j - i + 1);
			mpq_set_ui (REF_A (L, j, j), 1, 1);
			mpz_ui_pow_ui (mpq_numref (L->rhs[j]), 5, (unsigned) j + 1);
		}
		snprintf (label, ll, "klee-minty d=%d %s", dim, mx ? "max" : "min(-c)");
	} else if ((idx -= T_KM) < T_BEALE) {
		int rp[3], cp[4]; perm_k ((int) (idx % 6), 3, rp); perm_k ((int) (idx / 6), 4, cp);
		static const char *obj0[4] = { "-3/4", "20", "-1/2", "6" };
		static const char *rows0[3][4] = { { "1/4", "-8", "-1", "9" }, { "1/2", "-12", "-1/2", "3" }, { "0", "0", "1", "0" } };
		static const char *rhs0[3] = { "0", "0", "1" };
		const char *obj[4], *row[4];
		for (int c = 0; c < 4; c++) obj[c] = obj0[cp[c]];
		L = mk (REF_MIN, 4, obj, NULL);
		for (int r = 0; r < 3; r++) { for (int c = 0; c < 4; c++) row[c] = rows0[rp[r]][cp[c]]; addrow (L, 'L', rhs0[rp[r]], NULL, row); }
		snprintf (label, ll, "beale rowperm=%d colperm=%d", (int) (idx % 6), (int) (idx / 6));
	} else if ((idx -= T_BEALE) < T_DEGEN) {
		/* mult+1 lines through (1,1) in the plane (+ one through it in 3D variant), objective directions */
		int mult = (int) (idx % 4) + 1, o = (int) ((idx / 4) % 4), mx = (int) (idx / 16);
		static const char *objs[4][2] = { { "1", "1" }, { "1", "0" }, { "-1", "2" }, { "0", "0" } };
		static const char *dirs[5][2] = { { "1", "0" }, { "0", "1" }, { "1", "1" }, { "2", "1" }, { "1", "3" } };
		static const char *rhss[5] = { "1", "1", "2", "3", "4" };
		L = mk (mx ? REF_MAX : REF_MIN, 2, objs[o], NULL);
		for (int r = 0; r <= mult; r++) addrow (L, mx ? 'L' : 'G', rhss[r], NULL, dirs[r]);
		snprintf (label, ll, "degenerate vertex mult=%d obj=%d %s", mult + 1, o, mx ? "max" : "min");
	} else if ((idx -= T_DEGEN) < T_MISC) {
		static const char *o2[2] = { "1", "-1" }, *z2[2] = { "0", "0" }, *c11[2] = { "1", "1" }, *c10[2] = { "1", "0" }, *c01[2] = { "0", "1" };
		static const char *fr[2] = { "-inf:inf", "-inf:inf" }, *bx[2] = { "0:4", "-3:3" }, *fx[2] = { "2:2", "0:inf" };
		int v = (int) idx;
		const char **bn = (v % 4 == 1) ? fr : (v % 4 == 2) ? bx : (v % 4 == 3) ? fx : NULL;
		L = mk ((v / 4) % 2 ? REF_MAX : REF_MIN, 2, o2, bn);
		switch (v / 8) {
		case 0: addrow (L, 'L', "3", NULL, z2); addrow (L, 'L', "2", NULL, c11); break;                    /* empty row (0 <= 3) */
		case 1: addrow (L, 'L', "2", NULL, c10); addrow (L, 'G', "0", NULL, c10); addrow (L, 'R', "-1", "3", c01); break; /* column 1 only in a ranged row */
		default: addrow (L, 'L', "2", NULL, c11); addrow (L, 'L', "2", NULL, c11); addrow (L, 'E', "1", NULL, c10); break; /* duplicate rows */
		}
		snprintf (label, ll, "misc variant=%d", v);
	} else if (idx - T_MISC >= T_SCALE) {
		/* two nearly dependent equalities / ranged rows:  x + y (=|in) 1 ;  4x + 4y (=|in) 4 + delta, delta in {0, +2^-j, -2^-j}:
		 * consistent only for delta = 0 (or inside the range), inconsistent by a margin far below double precision otherwise */
		idx -= T_MISC + T_SCALE;
		if (idx >= T_NEQ) {
			/* one coefficient far below the floating-point tolerances (1e-9 dual, 1e-11 pivot ...) next to ordinary data:
			 * min x + c y, x + a y <= 10, 1 <= x <= 4, y >= 0 with c = +-10^-k: the sign of c decides between optimum 1,
			 * optimum 1 - 9 * 10^-k and unbounded;  and min x - y with a = 10^-k (optimum 1 - 9 * 10^k) */
			idx -= T_NEQ;
			static const int KT[4] = { 10, 12, 16, 30 };
			static const char *bn[2] = { "1:4", "0:inf" }, *o0[2] = { "1", "0" }, *r0[2] = { "1", "0" };
			int mx, k;
			if (idx < 48) {
				int a = (int) (idx % 3), cs = (int) ((idx / 3) % 2); k = KT[(idx / 6) % 4]; mx = (int) (idx / 24);
				L = mk (mx ? REF_MAX : REF_MIN, 2, o0, bn);
				addrow (L, 'L', "10", NULL, r0);
				mpq_set_ui (L->obj[1], 1, 1); mpz_ui_pow_ui (mpq_denref (L->obj[1]), 10, (unsigned) k); mpq_set_si (t, cs ? 1 : -1, 1); mpq_mul (L->obj[1], L->obj[1], t); mpq_canonicalize (L->obj[1]);
				mpq_set_si (REF_A (L, 0, 1), a == 0 ? 1 : a == 1 ? -1 : 0, 1);
				snprintf (label, ll, "tiny cost %s10^-%d a=%d %s", cs ? "+" : "-", k, a == 0 ? 1 : a == 1 ? -1 : 0, mx ? "max" : "min");
			} else {
				idx -= 48; k = KT[idx % 4]; mx = (int) (idx / 4);
				L = mk (mx ? REF_MAX : REF_MIN, 2, o0, bn);
				addrow (L, 'L', "10", NULL, r0);
				mpq_set_si (L->obj[1], -1, 1);
				mpq_set_ui (REF_A (L, 0, 1), 1, 1); mpz_ui_pow_ui (mpq_denref (REF_A (L, 0, 1)), 10, (unsigned) k); mpq_set_ui (t, 1, 1); mpq_mul (REF_A (L, 0, 1), REF_A (L, 0, 1), t); mpq_canonicalize (REF_A (L, 0, 1));
				snprintf (label, ll, "tiny matrix entry 10^-%d %s", k, mx ? "max" : "min");
			}
			if (mx) { mpq_neg (L->obj[0], L->obj[0]); mpq_neg (L->obj[1], L->obj[1]); }
			mpq_clear (e); mpq_clear (d); mpq_clear (t);
			return L;
		}
		int o = (int) (idx % 3), kind = (int) ((idx / 3) % 3), sg = (int) ((idx / 9) % 3), j = KJ[idx / 27];
		static const char *objs[3][2] = { { "1", "2" }, { "-1", "0" }, { "0", "0" } };
		static const char *c11[2] = { "1", "1" }, *c44[2] = { "4", "4" };
		L = mk (REF_MIN, 2, objs[o], NULL);
		if (kind == 1) addrow (L, 'R', "1", "0", c11); else addrow (L, 'E', "1", NULL, c11);
		q_pow2 (d, -j);
		if (kind == 2) { addrow (L, 'R', "4", "0", c44); mpq_set (L->range[1], d); }
		else addrow (L, 'E', "4", NULL, c44);
		if (sg == 1) mpq_add (L->rhs[1], L->rhs[1], d); else if (sg == 2) mpq_sub (L->rhs[1], L->rhs[1], d);
		snprintf (label, ll, "near-dependent equalities j=%d sign=%d kind=%d obj=%d", j, sg, kind, o);
	} else {
		idx -= T_MISC;
		int k = (int) (idx % 41), neg = (int) ((idx / 41) % 2), mx = (int) (idx / 82);
		if (k > tscale) { mpq_clear (e); mpq_clear (d); mpq_clear (t); return NULL; }
		static const char *o2[2] = { "1", "1" }, *z2[2] = { "0", "0" };
		L = mk (mx ? REF_MAX : REF_MIN, 2, o2, NULL);
		addrow (L, 'L', "1", NULL, z2); addrow (L, 'L', "1", NULL, z2); addrow (L, 'G', "1", NULL, z2);
		mpz_ui_pow_ui (mpq_numref (t), 10, (unsigned) k);
		if (neg) mpq_inv (t, t);
		/* t x + y <= t ; x + y/t <= 1 ... same halfplane scaled; x + t y >= 1 */
		mpq_set (REF_A (L, 0, 0), t); mpq_set_ui (REF_A (L, 0, 1), 1, 1); mpq_set (L->rhs[0], t);
		mpq_set_ui (REF_A (L, 1, 0), 1, 1); mpq_inv (d, t); mpq_set (REF_A (L, 1, 1), d);
		mpq_set_ui (REF_A (L, 2, 0), 1, 1); mpq_set (REF_A (L, 2, 1), t);
		snprintf (label, ll, "scaling 10^%s%d %s", neg ? "-" : "", k, mx ? "max" : "min");
	}
	mpq_clear (e); mpq_clear (d); mpq_clear (t);
	return L;
}

/* ------------------------------------------------------------ configuration lattice */
#define NCOORD 12
static const int cvals[NCOORD][8] = {
	{ ENTRY_EXACT, ENTRY_PRIMAL, ENTRY_DUAL },
	{ DUAL_SIMPLEX, PRIMAL_SIMPLEX },
	{ QS_PRICE_PSTEEP, QS_PRICE_PDANTZIG, QS_PRICE_PDEVEX, QS_PRICE_PMULTPARTIAL },
	{ QS_PRICE_DSTEEP, QS_PRICE_DDANTZIG, QS_PRICE_DMULTPARTIAL, QS_PRICE_DDEVEX },
	{ 1, 0 },
	{ 0, 1, 2, 3 },
	{ 0, 64, 192, 256, 512, 1024 },
	{ 0, 1, 2, 3 },
	{ 0, 1, 2, 3 },
	{ 0, 1 },
	{ ROUTE_LOAD, ROUTE_ROWS, ROUTE_COLS, ROUTE_ROWS1 },
	{ 0, 1 },
};
static const int ccnt[NCOORD] = { 3, 2, 4, 4, 2, 4, 6, 4, 4, 2, 4, 2 };
static const char *cname[NCOORD] = { "entry", "algo", "ppr", "dpr", "scaling", "display", "prec", "warm", "itlim", "repeat", "route", "zeros" };
static void from_vec (const int *v, XCfg * x)
{
	xcfg_default (x);
	x->c.entry = cvals[0][v[0]]; x->c.algo = cvals[1][v[1]]; x->c.ppr = cvals[2][v[2]]; x->c.dpr = cvals[3][v[3]];
	x->c.scaling = cvals[4][v[4]]; x->c.display = cvals[5][v[5]]; x->c.prec = cvals[6][v[6]]; x->warm = cvals[7][v[7]];
	x->c.itlim = cvals[8][v[8]]; x->c.repeat = cvals[9][v[9]]; x->route = cvals[10][v[10]]; x->zeros = cvals[11][v[11]];
}
void xcfg_default (XCfg * x) { memset (x, 0, sizeof *x); cfg_default (&x->c); x->route = ROUTE_LOAD; }
static int k1_count (void) { int k = 1; for (int i = 0; i < NCOORD; i++) k += ccnt[i] - 1; return k; }
static int k2_count (void)
{
	int k = k1_count ();
	for (int i = 0; i < NCOORD; i++) for (int j = i + 1; j < NCOORD; j++) k += (ccnt[i] - 1) * (ccnt[j] - 1);
	return k;
}
#define NFULL 10   /* coordinates 0..9 in the full product */
static int full_count (void) { int k = 1; for (int i = 0; i < NFULL; i++) k *= ccnt[i]; return k; }
int xcfg_set_count (const char *s)
{
	if (!strcmp (s, "default")) return 1;
	if (!strcmp (s, "k1")) return k1_count ();
	if (!strcmp (s, "k2")) return k2_count ();
	if (!strcmp (s, "full")) return full_count ();
	if (!strcmp (s, "k1x")) return 1 + 2 + 1 + 3 + 3 + 1;   /* entry, algo, pricing, scaling only */
	if (!strcmp (s, "kpr")) return 1 + 2 * 4 * 4 * 2;       /* default + full product {direct primal, direct dual} x primal pricing x dual pricing x scaling */
	if (!strcmp (s, "kdir")) return 1 + 2 * 2 * 4;          /* default + full product {direct primal, direct dual} x scaling x warm start */
	fprintf (stderr, "unknown config set %s\n", s); exit (2);
}
void xcfg_get (const char *s, int k, XCfg * x)
{
	int v[NCOORD] = { 0 };
	if (!strcmp (s, "default") || k == 0) { from_vec (v, x); return; }
	if (!strcmp (s, "full")) { for (int i = 0; i < NFULL; i++) { v[i] = k % ccnt[i]; k /= ccnt[i]; } from_vec (v, x); return; }
	k--;
	if (!strcmp (s, "kpr")) { v[0] = 1 + k % 2; k /= 2; v[2] = k % 4; k /= 4; v[3] = k % 4; k /= 4; v[4] = k % 2; from_vec (v, x); return; }
	if (!strcmp (s, "kdir")) { v[0] = 1 + k % 2; k /= 2; v[4] = k % 2; k /= 2; v[7] = k % 4; from_vec (v, x); return; }
	int lim = !strcmp (s, "k1x") ? 5 : NCOORD;
	for (int i = 0; i < lim; i++) { if (k < ccnt[i] - 1) { v[i] = k + 1; from_vec (v, x); return; } k -= ccnt[i] - 1; }
	for (int i = 0; i < NCOORD; i++) for (int j = i + 1; j < NCOORD; j++) {
		int c = (ccnt[i] - 1) * (ccnt[j] - 1);
		if (k < c) { v[i] = k / (ccnt[j] - 1) + 1; v[j] = k % (ccnt[j] - 1) + 1; from_vec (v, x); return; }
		k -= c;
	}
	from_vec (v, x);
}
void xcfg_str (const XCfg * x, char *buf, size_t bl)
{
	char b[256]; cfg_str (&x->c, b, sizeof b);
	snprintf (buf, bl, "%s route=%d zeros=%d warm=%d", b, x->route, x->zeros, x->warm);
	(void) cname;
}
int xcfg_is_default_limits (const XCfg * x) { return x->c.itlim == 0; }
